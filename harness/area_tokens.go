package main

// Area `tokens` (C20): tokens/tokens.go, tokens/tokens_handlers.go on real macaroons.
//
// The real code reads the wall clock.  Ops are therefore either
//   - clock-relative recipes (`generate`, `validate_at`, `issue_validate`, `issue_wait_validate`): Exec
//     builds the token at run time relative to the second it observes, re-running when the second
//     ticked during the call, and the outcome does not mention absolute times; the op carries the
//     instant N observed at generation so that the model is evaluated on realistic digit strings; or
//   - raw tokens whose time caveat (if any) is at least 10^8 s away from the present (`validate`,
//     `get_user`), where the outcome does not depend on the instant for years.
//
// For raw tokens the op line carries the abstract token (id, caveats, signature tokProvenance) that the
// harness extracted with the macaroon library; the Lean driver decides from that.

import (
	"bytes"
	"encoding/base64"
	"fmt"
	"math/big"
	"strconv"
	"strings"
	"time"

	"github.com/matrix-org/gomatrixserverlib/tokens"
	macaroon "gopkg.in/macaroon.v2"
)

func init() { areas["tokens"] = Area{Gen: genTokens, Exec: execTokens} }

// ---- encodings ----

func tokKeyArg(k []byte) string {
	if k == nil {
		return "nil"
	}
	return hx(k)
}

func tokUnKey(s string) []byte {
	if s == "nil" {
		return nil
	}
	b := unhx(s)
	if b == nil {
		b = []byte{}
	}
	return b
}

func tokDecodeToken(tok string) (*macaroon.Macaroon, bool) {
	bin, err := base64.RawURLEncoding.DecodeString(tok)
	if err != nil {
		return nil, false
	}
	var m macaroon.Macaroon
	if err := m.UnmarshalBinary(bin); err != nil {
		return nil, false
	}
	return &m, true
}

func tokEncodeToken(m *macaroon.Macaroon) string {
	bin, err := m.MarshalBinary()
	if err != nil {
		panic("harness: marshal: " + err.Error())
	}
	return base64.RawURLEncoding.EncodeToString(bin)
}

func tokCavsArg(m *macaroon.Macaroon) string {
	cs := m.Caveats()
	if len(cs) == 0 {
		return "_"
	}
	var parts []string
	for _, c := range cs {
		if len(c.VerificationId) > 0 {
			parts = append(parts, hx(c.Id)+":"+hx(c.VerificationId))
		} else {
			parts = append(parts, hx(c.Id))
		}
	}
	return strings.Join(parts, ";")
}

func tokFirstParty(m *macaroon.Macaroon) ([][]byte, bool) {
	var out [][]byte
	for _, c := range m.Caveats() {
		if len(c.VerificationId) > 0 {
			return nil, false
		}
		out = append(out, c.Id)
	}
	return out, true
}

// tokRealChain computes the real signature of (key, id, conds) with the library.
func tokRealChain(key, id []byte, conds [][]byte) []byte {
	m, err := macaroon.New(key, id, "", macaroon.V2)
	if err != nil {
		panic("harness: macaroon.New: " + err.Error())
	}
	for _, c := range conds {
		_ = m.AddFirstPartyCaveat(c)
	}
	return m.Signature()
}

type tokOrigin struct {
	key, id []byte
	conds   [][]byte
}

// tokProvenance establishes, with the real HMAC, how m's signature relates to its content.
func tokProvenance(m *macaroon.Macaroon, keys [][]byte, origins []tokOrigin) string {
	if conds, ok := tokFirstParty(m); ok {
		for _, k := range keys {
			if bytes.Equal(tokRealChain(k, m.Id(), conds), m.Signature()) {
				return "S:" + hx(k)
			}
		}
	}
	for _, o := range origins {
		if bytes.Equal(tokRealChain(o.key, o.id, o.conds), m.Signature()) {
			var cs []string
			for _, c := range o.conds {
				cs = append(cs, hx(c))
			}
			l := "_"
			if len(cs) > 0 {
				l = strings.Join(cs, ",")
			}
			return "O:" + hx(o.key) + ":" + hx(o.id) + ":" + l
		}
	}
	return "G"
}

func tokClassifyTokErr(err error) string {
	if err == nil {
		return "ok"
	}
	switch err.Error() {
	case "Token does not represent a valid macaroon":
		return "err:decode"
	case "Provided token was not issued by this server":
		return "err:sig"
	case "Provided token not authorized":
		return "err:caveats"
	case "The given TokenOptions is invalid":
		return "err:options"
	}
	return "err:other"
}

// tokStableSecond runs f between two readings of the clock until both fall in the same second.
func tokStableSecond(f func(now int64) string) string {
	for i := 0; i < 20; i++ {
		t0 := time.Now().Unix()
		r := f(t0)
		if time.Now().Unix() == t0 {
			return r
		}
	}
	return "err:clock-unstable"
}

type tokCavSpec struct {
	kind  byte // 'L' literal, 'T' time relative, 'P' third party
	lit   []byte
	delta int64
}

func (c tokCavSpec) String() string {
	switch c.kind {
	case 'T':
		return "T" + strconv.FormatInt(c.delta, 10)
	case 'P':
		return "P" + hx(c.lit)
	}
	return "L" + hx(c.lit)
}

func tokSpecsArg(cs []tokCavSpec) string {
	if len(cs) == 0 {
		return "_"
	}
	var p []string
	for _, c := range cs {
		p = append(p, c.String())
	}
	return strings.Join(p, ";")
}

func tokParseSpecs(s string) []tokCavSpec {
	if s == "_" {
		return nil
	}
	var out []tokCavSpec
	for _, p := range strings.Split(s, ";") {
		switch p[0] {
		case 'T':
			d, err := strconv.ParseInt(p[1:], 10, 64)
			if err != nil {
				panic("harness: bad cavspec")
			}
			out = append(out, tokCavSpec{kind: 'T', delta: d})
		case 'P':
			out = append(out, tokCavSpec{kind: 'P', lit: unhx(p[1:])})
		default:
			out = append(out, tokCavSpec{kind: 'L', lit: unhx(p[1:])})
		}
	}
	return out
}

func tokAddSpec(m *macaroon.Macaroon, c tokCavSpec, now int64) {
	switch c.kind {
	case 'T':
		_ = m.AddFirstPartyCaveat([]byte(tokens.TimePrefix + strconv.FormatInt(now+c.delta, 10)))
	case 'P':
		if err := m.AddThirdPartyCaveat([]byte("third-party-root-key"), c.lit, "elsewhere"); err != nil {
			panic("harness: third party caveat: " + err.Error())
		}
	default:
		_ = m.AddFirstPartyCaveat(c.lit)
	}
}

func tokAtoiArg(s string) int64 {
	v, err := strconv.ParseInt(s, 10, 64)
	if err != nil {
		panic("harness: bad int " + s)
	}
	return v
}

// tokShowIssued renders an issued token relative to the issue second.
func tokShowIssued(tok string, key []byte, now int64) string {
	m, ok := tokDecodeToken(tok)
	if !ok {
		return "err:undecodable-issue"
	}
	var cs []string
	for _, c := range m.Caveats() {
		s := string(c.Id)
		if len(c.VerificationId) == 0 && strings.HasPrefix(s, tokens.TimePrefix) {
			rest := s[len(tokens.TimePrefix):]
			if e, err := strconv.ParseInt(rest, 10, 64); err == nil && strconv.FormatInt(e, 10) == rest {
				cs = append(cs, "T"+new(big.Int).Sub(big.NewInt(e), big.NewInt(now)).String()) // exact: e-now may leave int64
				continue
			}
		}
		cs = append(cs, hx(c.Id))
	}
	sg := "G"
	if _, err := m.VerifySignature(key, nil); err == nil {
		sg = "S"
	}
	u, err := tokens.GetUserFromToken(tok)
	us := "?"
	if err == nil {
		us = hx([]byte(u))
	}
	return "ok:" + hx(m.Id()) + ":" + strings.Join(cs, ",") + ":" + sg + ":user=" + us
}

func execTokens(op string, args []string) string {
	switch op {
	case "generate": // key server user duration N
		o := tokens.TokenOptions{ServerPrivateKey: tokUnKey(args[0]), ServerName: string(unhx(args[1])), UserID: string(unhx(args[2])), Duration: int(tokAtoiArg(args[3]))}
		return tokStableSecond(func(now int64) string {
			tok, err := tokens.GenerateLoginToken(o)
			if err != nil {
				return tokClassifyTokErr(err)
			}
			return tokShowIssued(tok, o.ServerPrivateKey, now)
		})
	case "validate": // vkey vuser N decodable id cavs prov raw
		o := tokens.TokenOptions{ServerPrivateKey: tokUnKey(args[0]), UserID: string(unhx(args[1]))}
		return tokClassifyTokErr(tokens.ValidateToken(o, string(unhx(args[7]))))
	case "validate_at": // vkey vuser N mintkey id specs
		o := tokens.TokenOptions{ServerPrivateKey: tokUnKey(args[0]), UserID: string(unhx(args[1]))}
		specs := tokParseSpecs(args[5])
		return tokStableSecond(func(now int64) string {
			m, err := macaroon.New(unhx(args[3]), unhx(args[4]), "loc", macaroon.V2)
			if err != nil {
				panic("harness: macaroon.New")
			}
			for _, c := range specs {
				tokAddSpec(m, c, now)
			}
			return tokClassifyTokErr(tokens.ValidateToken(o, tokEncodeToken(m)))
		})
	case "issue_validate": // ikey server iuser dur vkey vuser N delay appends
		io := tokens.TokenOptions{ServerPrivateKey: tokUnKey(args[0]), ServerName: string(unhx(args[1])), UserID: string(unhx(args[2])), Duration: int(tokAtoiArg(args[3]))}
		vo := tokens.TokenOptions{ServerPrivateKey: tokUnKey(args[4]), ServerName: io.ServerName, UserID: string(unhx(args[5]))}
		if tokAtoiArg(args[7]) != 0 {
			panic("harness: issue_validate is same-second only")
		}
		specs := tokParseSpecs(args[8])
		return tokStableSecond(func(now int64) string {
			tok, err := tokens.GenerateLoginToken(io)
			if err != nil {
				return tokClassifyTokErr(err)
			}
			if len(specs) > 0 {
				m, ok := tokDecodeToken(tok)
				if !ok {
					return "err:undecodable-issue"
				}
				for _, c := range specs {
					tokAddSpec(m, c, now)
				}
				tok = tokEncodeToken(m)
			}
			return tokClassifyTokErr(tokens.ValidateToken(vo, tok))
		})
	case "issue_wait_validate": // key server user dur lo hi N   (sleep so that lo <= elapsed seconds <= hi)
		o := tokens.TokenOptions{ServerPrivateKey: tokUnKey(args[0]), ServerName: string(unhx(args[1])), UserID: string(unhx(args[2])), Duration: int(tokAtoiArg(args[3]))}
		lo, hi := tokAtoiArg(args[4]), tokAtoiArg(args[5])
		for try := 0; try < 5; try++ {
			// start early in a second so that the elapsed whole seconds are predictable
			for time.Now().Nanosecond() > 200_000_000 {
				time.Sleep(20 * time.Millisecond)
			}
			t0 := time.Now().Unix()
			tok, err := tokens.GenerateLoginToken(o)
			if err != nil {
				return tokClassifyTokErr(err)
			}
			if time.Now().Unix() != t0 {
				continue
			}
			time.Sleep(time.Duration(lo)*time.Second + 300*time.Millisecond)
			t1 := time.Now().Unix()
			res := tokClassifyTokErr(tokens.ValidateToken(o, tok))
			t2 := time.Now().Unix()
			if t1 == t2 && t1-t0 >= lo && t1-t0 <= hi {
				return res
			}
		}
		return "err:clock-unstable"
	case "get_user": // decodable id raw
		u, err := tokens.GetUserFromToken(string(unhx(args[2])))
		if err != nil {
			return "err:decode"
		}
		return "ok:" + hx([]byte(u))
	}
	return "bad-op"
}

// ---- generator ----

const tokFarFuture = 400_000_000 // seconds: > 12 years

func (r *Rng) tokBytes(n int) []byte {
	b := make([]byte, n)
	for i := range b {
		b[i] = byte(r.Next())
	}
	return b
}

func (r *Rng) tokUser() []byte {
	switch r.Intn(12) {
	case 0:
		return []byte("@a:b")
	case 1:
		return []byte("@alice:example.org")
	case 2:
		return []byte("@bob:example.org")
	case 3:
		return []byte("@alice:example.org ") // trailing space
	case 4:
		return []byte("@ALICE:example.org")
	case 5:
		return []byte("@ü:π.example")
	case 6:
		return append([]byte("@x"), r.tokBytes(1+r.Intn(4))...) // arbitrary bytes
	case 7:
		return []byte("gen = 1")
	case 8:
		return []byte("time < 99999999999")
	case 9:
		return []byte("@alice:example.or")
	}
	return []byte(fmt.Sprintf("@u%d:s%d.example", r.Intn(5), r.Intn(3)))
}

func (r *Rng) tokKey() []byte {
	switch r.Intn(8) {
	case 0:
		return []byte{}
	case 1:
		return []byte("secret")
	case 2:
		return []byte("secret2")
	case 3:
		return []byte("Secret")
	case 4:
		return r.tokBytes(32)
	case 5:
		return r.tokBytes(64)
	case 6:
		return []byte("secre")
	}
	return r.tokBytes(1 + r.Intn(40))
}

var tokDurations = []int64{0, 1, 2, 3, 120, 119, 121, 60, 3600, -1, -2, -120, -3600, 1 << 31, 1 << 40}

func genTokens(o *Out, tier string, r *Rng) {
	// main.go seeds SplitMix64 with seed*increment+c, so the streams of seeds k and k+1 are the same stream
	// shifted by one draw; restart from a drawn state to decorrelate the seeds
	r = &Rng{s: r.Next()}
	rounds := 60
	if tier == "thorough" {
		rounds = 2500
	}
	now := func() string { return strconv.FormatInt(time.Now().Unix(), 10) }

	// raw validation of a token against (key,user): op line carries the abstract token
	rawValidate := func(vkey, vuser []byte, tok string, keys [][]byte, origins []tokOrigin, label string) {
		m, ok := tokDecodeToken(tok)
		dec, id, cavs, prov := "0", "-", "_", "G"
		if ok {
			dec, id, cavs, prov = "1", hx(m.Id()), tokCavsArg(m), tokProvenance(m, keys, origins)
		}
		res := o.Do("validate", tokKeyArg(vkey), hx(vuser), now(), dec, id, cavs, prov, hx([]byte(tok)))
		o.Count("validate." + label + "." + res)
		if r.Chance(30) {
			o.Do("get_user", dec, id, hx([]byte(tok)))
		}
	}

	mint := func(key, id []byte, conds [][]byte, ver macaroon.Version) *macaroon.Macaroon {
		m, err := macaroon.New(key, id, "loc", ver)
		if err != nil {
			m, _ = macaroon.New(key, []byte("fallback"), "loc", macaroon.V2)
		}
		for _, c := range conds {
			_ = m.AddFirstPartyCaveat(c)
		}
		return m
	}

	for i := 0; i < rounds; i++ {
		key, key2 := r.tokKey(), r.tokKey()
		user, user2 := r.tokUser(), r.tokUser()
		server := []byte(Pick(r, []string{"example.org", "s", "localhost:8448", "a.b"}))
		dur := Pick(r, tokDurations)

		// --- issue: what GenerateLoginToken produces ---
		switch r.Intn(12) {
		case 0:
			o.Do("generate", "nil", hx(server), hx(user), strconv.FormatInt(dur, 10), now())
			o.Count("generate.nil-key")
		case 1:
			o.Do("generate", tokKeyArg(key), "-", hx(user), strconv.FormatInt(dur, 10), now())
			o.Count("generate.empty-server")
		case 2:
			o.Do("generate", tokKeyArg(key), hx(server), "-", strconv.FormatInt(dur, 10), now())
			o.Count("generate.empty-user")
		case 3:
			big := Pick(r, []int64{1<<63 - 1, 1<<63 - 2, 1 << 62, -(1 << 63), -(1 << 62)})
			o.Do("generate", tokKeyArg(key), hx(server), hx(user), strconv.FormatInt(big, 10), now())
			o.Count("generate.extreme-duration")
		default:
			res := o.Do("generate", tokKeyArg(key), hx(server), hx(user), strconv.FormatInt(dur, 10), now())
			o.Count("generate.valid")
			if i < 3 {
				o.Sample("generate -> " + res)
			}
		}

		// --- issue + validate in the same second: key / user / appended caveats ---
		vk, vu := key, user
		switch r.Intn(6) {
		case 0:
			vk = key2
		case 1:
			vu = user2
		case 2:
			vk, vu = key2, user2
		}
		var apps []tokCavSpec
		if r.Chance(45) {
			n := 1 + r.Intn(2)
			for j := 0; j < n; j++ {
				switch r.Intn(9) {
				case 0:
					apps = append(apps, tokCavSpec{kind: 'L', lit: []byte(tokens.Gen)})
				case 1:
					apps = append(apps, tokCavSpec{kind: 'L', lit: []byte(tokens.UserPrefix + string(user))})
				case 2:
					apps = append(apps, tokCavSpec{kind: 'L', lit: []byte(tokens.UserPrefix + string(user2))})
				case 3:
					apps = append(apps, tokCavSpec{kind: 'T', delta: Pick(r, []int64{-1, 0, 1, 2, 1000, 1 << 40})})
				case 4:
					apps = append(apps, tokCavSpec{kind: 'L', lit: []byte("admin = true")})
				case 5:
					apps = append(apps, tokCavSpec{kind: 'L', lit: []byte{}})
				case 6:
					apps = append(apps, tokCavSpec{kind: 'L', lit: []byte("gen = 2")})
				case 7:
					apps = append(apps, tokCavSpec{kind: 'P', lit: []byte("3rd")})
				case 8:
					apps = append(apps, tokCavSpec{kind: 'L', lit: []byte("time < ")})
				}
			}
		}
		res := o.Do("issue_validate", tokKeyArg(key), hx(server), hx(user), strconv.FormatInt(dur, 10), tokKeyArg(vk), hx(vu), now(), "0", tokSpecsArg(apps))
		lbl := "same"
		if !bytes.Equal(vk, key) {
			lbl = "otherkey"
		} else if !bytes.Equal(vu, user) {
			lbl = "otheruser"
		}
		if len(apps) > 0 {
			lbl += "+appended"
		}
		o.Count("issue_validate." + lbl + "." + res)

		// --- tokens built from scratch relative to now: boundaries of expiry, order, drop, duplicate ---
		for j := 0; j < 4; j++ {
			g := tokCavSpec{kind: 'L', lit: []byte(tokens.Gen)}
			u := tokCavSpec{kind: 'L', lit: []byte(tokens.UserPrefix + string(user))}
			t := tokCavSpec{kind: 'T', delta: Pick(r, []int64{-2, -1, 0, 1, 2, 3, 120, -120, 1 << 33})}
			specs := []tokCavSpec{g, u, t}
			switch r.Intn(16) {
			case 14, 15: // a caveat REPLACED by a longer / shorter spelling of itself: every caveat is compared as a whole (seed C20-r6m1)
				k := r.Intn(2)
				if k == 0 {
					specs[0] = tokCavSpec{kind: 'L', lit: []byte(Pick(r, []string{"gen = 10", "gen = 12", "gen = 1 ", "gen = 1.5", "gen = 1; admin = true", "gen = ", "gen =", "gen = 11", "gen = 01", " gen = 1"}))}
				} else {
					specs[1] = tokCavSpec{kind: 'L', lit: []byte(tokens.UserPrefix + string(user) + Pick(r, []string{"x", ":8448", " ", "\x00", ".evil.example"}))}
				}
			case 0: // as issued
			case 1, 2: // reorder
				for k := len(specs) - 1; k > 0; k-- {
					l := r.Intn(k + 1)
					specs[k], specs[l] = specs[l], specs[k]
				}
			case 3: // drop one
				k := r.Intn(3)
				specs = append(specs[:k:k], specs[k+1:]...)
			case 4: // drop two
				specs = []tokCavSpec{specs[r.Intn(3)]}
			case 5: // none
				specs = nil
			case 6: // duplicate one (same value)
				k := r.Intn(3)
				specs = append(specs, specs[k])
			case 7: // two time caveats, one passing one failing, both orders
				t2 := tokCavSpec{kind: 'T', delta: Pick(r, []int64{-1, 0, 1, 5})}
				if r.Bool() {
					specs = []tokCavSpec{g, u, t, t2}
				} else {
					specs = []tokCavSpec{g, t2, u, t}
				}
			case 8: // two user caveats
				u2 := tokCavSpec{kind: 'L', lit: []byte(tokens.UserPrefix + string(user2))}
				if r.Bool() {
					specs = []tokCavSpec{g, u, u2, t}
				} else {
					specs = []tokCavSpec{g, u2, u, t}
				}
			case 9: // unknown caveat somewhere
				x := tokCavSpec{kind: 'L', lit: Pick(r, [][]byte{[]byte("x"), {}, []byte("gen = 1 "), []byte("gen =1"), []byte("user_id ="), []byte("time <"), []byte("GEN = 1"), {0xff, 0xfe}})}
				k := r.Intn(4)
				specs = append(specs[:k:k], append([]tokCavSpec{x}, specs[k:]...)...)
			case 10: // spellings of the expiry that Atoi accepts or refuses
				sp := Pick(r, []string{"+%d", "0%d", "%d ", " %d", "%d.0", "-%d", "0x%x", "%d_", "", "+", "-", "9223372036854775807", "9223372036854775808", "-9223372036854775808", "-9223372036854775809", "00000000000000000000000000000000%d", "99999999999999999999999", "１２３"})
				s := sp
				if strings.Contains(sp, "%") {
					// relative spelling cannot be expressed as T-spec: use a far future / far past literal
					base := time.Now().Unix() + Pick(r, []int64{tokFarFuture, -tokFarFuture})
					s = fmt.Sprintf(sp, base)
				}
				specs = []tokCavSpec{g, u, {kind: 'L', lit: []byte(tokens.TimePrefix + s)}}
			case 11: // user caveat variants
				uv := Pick(r, []string{"", " ", string(user) + " ", " " + string(user), strings.ToUpper(string(user))})
				specs = []tokCavSpec{g, {kind: 'L', lit: []byte(tokens.UserPrefix + uv)}, t}
			case 12: // third-party caveat
				specs = append(specs, tokCavSpec{kind: 'P', lit: []byte("tp")})
			case 13: // id differs from user (id is not authenticated against the user by ValidateToken)
			}
			mk, id := key, user
			if r.Chance(15) {
				mk = key2
			}
			if r.Chance(10) {
				id = user2
			}
			vu2 := user
			if r.Chance(10) {
				vu2 = user2
			}
			res := o.Do("validate_at", tokKeyArg(key), hx(vu2), now(), hx(mk), hx(id), tokSpecsArg(specs))
			o.Count("validate_at." + res)
		}

		// --- raw tokens (far-future expiry): caveat-level forgeries keeping a stale signature, byte-level alterations ---
		exp := time.Now().Unix() + tokFarFuture
		if r.Chance(20) {
			exp = time.Now().Unix() - tokFarFuture
		}
		conds := [][]byte{[]byte(tokens.Gen), []byte(tokens.UserPrefix + string(user)), []byte(tokens.TimePrefix + strconv.FormatInt(exp, 10))}
		ver := macaroon.V2
		if r.Chance(15) {
			ver = macaroon.V1
		}
		good := mint(key, user, conds, ver)
		goodTok := tokEncodeToken(good)
		keys := [][]byte{key, key2}
		origins := []tokOrigin{{key, user, conds}}
		rawValidate(key, user, goodTok, keys, origins, "intact")
		rawValidate(key2, user, goodTok, keys, origins, "otherkey")
		rawValidate(key, user2, goodTok, keys, origins, "otheruser")

		// content changed, signature kept (what someone without the key can do besides appending)
		for j := 0; j < 3; j++ {
			var c2 [][]byte
			id2 := user
			switch r.Intn(6) {
			case 0: // drop a caveat
				k := r.Intn(3)
				c2 = append(append([][]byte{}, conds[:k]...), conds[k+1:]...)
			case 1: // reorder
				c2 = [][]byte{conds[1], conds[0], conds[2]}
			case 2: // change the user caveat and id
				c2 = [][]byte{conds[0], []byte(tokens.UserPrefix + string(user2)), conds[2]}
				id2 = user2
			case 3: // push the expiry
				c2 = [][]byte{conds[0], conds[1], []byte(tokens.TimePrefix + strconv.FormatInt(exp+tokFarFuture, 10))}
			case 4: // change only the id
				c2 = conds
				id2 = user2
			case 5: // append a caveat without extending the chain
				c2 = append(append([][]byte{}, conds...), []byte("x = y"))
			}
			forged := mint(r.tokBytes(8), id2, c2, macaroon.V2) // signature under a throw-away key, then overwritten below
			// overwrite the signature with the genuine token's: re-marshal by splicing the last 32 bytes
			fb, _ := forged.MarshalBinary()
			gs := good.Signature()
			if len(fb) >= 32 {
				copy(fb[len(fb)-32:], gs)
			}
			tok := base64.RawURLEncoding.EncodeToString(fb)
			vu3 := user
			if bytes.Equal(id2, user2) && r.Bool() {
				vu3 = user2
			}
			rawValidate(key, vu3, tok, keys, origins, "stale-sig")
		}

		// byte-level alterations of the encoded token
		nb := 6
		if tier == "thorough" {
			nb = 12
		}
		for j := 0; j < nb; j++ {
			b := []byte(goodTok)
			const alphabet = "ABCDEFGHIJKLMNOPQRSTUVWXYZabcdefghijklmnopqrstuvwxyz0123456789-_"
			switch r.Intn(7) {
			case 0, 1: // substitute one character
				k := r.Intn(len(b))
				b[k] = alphabet[r.Intn(64)]
			case 2: // flip one bit of the binary form
				bin, _ := base64.RawURLEncoding.DecodeString(goodTok)
				k := r.Intn(len(bin))
				bin[k] ^= 1 << uint(r.Intn(8))
				b = []byte(base64.RawURLEncoding.EncodeToString(bin))
			case 3: // insert
				k := r.Intn(len(b) + 1)
				b = append(b[:k:k], append([]byte{alphabet[r.Intn(64)]}, b[k:]...)...)
			case 4: // delete
				k := r.Intn(len(b))
				b = append(b[:k:k], b[k+1:]...)
			case 5: // truncate
				b = b[:r.Intn(len(b))]
			case 6: // non-alphabet character / padding
				k := r.Intn(len(b))
				b[k] = Pick(r, []byte{'=', '+', '/', ' ', 0x00, 0xff})
			}
			rawValidate(key, user, string(b), keys, origins, "bytes")
		}
	}

	// --- bounded-exhaustive: every single-character substitution / every single-bit flip of one token ---
	{
		key, user := []byte("secret"), []byte("@alice:example.org")
		exp := time.Now().Unix() + tokFarFuture
		conds := [][]byte{[]byte(tokens.Gen), []byte(tokens.UserPrefix + string(user)), []byte(tokens.TimePrefix + strconv.FormatInt(exp, 10))}
		good := mint(key, user, conds, macaroon.V2)
		goodTok := tokEncodeToken(good)
		keys := [][]byte{key}
		origins := []tokOrigin{{key, user, conds}}
		bin, _ := base64.RawURLEncoding.DecodeString(goodTok)
		step := 5
		if tier == "thorough" {
			step = 1
		}
		for k := 0; k < len(bin)*8; k += step {
			b2 := append([]byte{}, bin...)
			b2[k/8] ^= 1 << uint(k%8)
			rawValidate(key, user, base64.RawURLEncoding.EncodeToString(b2), keys, origins, "bitflip")
		}
		for k := 0; k <= len(goodTok); k += step {
			rawValidate(key, user, goodTok[:k], keys, origins, "truncate")
		}
	}

	// --- real waits (thorough): elapsed wall-clock time expires a token ---
	if tier == "thorough" {
		key, user, server := []byte("secret"), []byte("@alice:example.org"), []byte("example.org")
		for _, c := range [][3]int64{{1, 1, 2}, {2, 2, 3}, {2, 0, 1}, {3, 1, 2}, {1, 0, 0}, {-1, 0, 0}} {
			res := o.Do("issue_wait_validate", tokKeyArg(key), hx(server), hx(user), strconv.FormatInt(c[0], 10),
				strconv.FormatInt(c[1], 10), strconv.FormatInt(c[2], 10), now())
			o.Count("issue_wait_validate." + res)
		}
	}
}
