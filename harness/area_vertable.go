package main

// Area vertable (C17): the room-version table, dumped through the PUBLIC API of every registered
// version: getters, and behaviour probes of the function-valued columns.

import (
	"crypto/sha256"
	"encoding/base64"
	"encoding/json"
	"sort"
	"strconv"
	"strings"
	"time"

	gmsl "github.com/matrix-org/gomatrixserverlib"
	"github.com/matrix-org/gomatrixserverlib/spec"
	"github.com/tidwall/gjson"
)

func init() { areas["vertable"] = Area{Gen: genVertable, Exec: execVertable} }

func b01(b bool) string {
	if b {
		return "1"
	}
	return "0"
}

func okErr(err error) string {
	if err != nil {
		return "err"
	}
	return "ok"
}

func csvArg(s string) []string {
	if s == "-" {
		return nil
	}
	return strings.Split(s, ",")
}

// redactProbeEvent builds an event with the given top-level and content keys.
func redactProbeEvent(typ string, top, content []string) []byte {
	vals := map[string]string{
		"event_id": `"$e"`, "room_id": `"!r:b"`, "sender": `"@s:b"`, "state_key": `""`, "hashes": `{"sha256":"x"}`,
		"signatures": `{"b":{"ed25519:1":"x"}}`, "depth": `1`, "prev_events": `[]`, "prev_state": `[]`, "auth_events": `[]`,
		"origin": `"b"`, "origin_server_ts": `1`, "membership": `"join"`, "unsigned": `{"age":1}`, "redacts": `"$x"`,
	}
	var sb strings.Builder
	sb.WriteString("{")
	for i, k := range top {
		if i > 0 {
			sb.WriteString(",")
		}
		sb.WriteString(strconv.Quote(k) + ":")
		switch k {
		case "type":
			sb.WriteString(strconv.Quote(typ))
		case "content":
			sb.WriteString("{")
			for j, ck := range content {
				if j > 0 {
					sb.WriteString(",")
				}
				sb.WriteString(strconv.Quote(ck) + ":1")
			}
			sb.WriteString("}")
		default:
			if v, ok := vals[k]; ok {
				sb.WriteString(v)
			} else {
				sb.WriteString("1")
			}
		}
	}
	sb.WriteString("}")
	return []byte(sb.String())
}

var vertableKey = ed25519KeyFromSeed("verif-vertable-harness-seed-0001")

func execVertable(op string, args []string) string {
	if len(args) < 1 {
		return "bad-op"
	}
	v, err := gmsl.GetRoomVersion(gmsl.RoomVersion(args[0]))
	if err != nil {
		return "err:version"
	}
	switch op {
	case "meta":
		return "ok:ver=" + string(v.Version()) + ";stable=" + b01(v.Stable()) + ";sr=" + istr(int(v.StateResAlgorithm())) +
			";ef=" + istr(int(v.EventFormat())) + ";eid=" + istr(int(v.EventIDFormat())) +
			";dl=" + b01(v.DomainlessRoomIDs()) + ";pc=" + b01(v.PrivilegedCreators())
	case "sigvalid":
		at, _ := strconv.ParseInt(args[2], 10, 64)
		vu, _ := strconv.ParseInt(args[3], 10, 64)
		if v.SignatureValidityCheck(spec.Timestamp(at), spec.Timestamp(vu)) {
			return "true"
		}
		return "false"
	case "canon":
		return okErr(v.CheckCanonicalJSON(unhx(args[1])))
	case "knock":
		prev := args[2]
		if prev == "-" {
			prev = ""
		}
		return okErr(v.CheckKnockingAllowed(args[0], "@a:b", "@a:b", args[1], prev))
	case "rjallowed":
		return okErr(v.CheckRestrictedJoinsAllowed())
	case "rjserver":
		content := []byte(`{"membership":"join"}`)
		if args[1] != "~" {
			val, _ := json.Marshal(string(unhx(args[1])))
			content = []byte(`{"join_authorised_via_users_server":` + string(val) + `,"membership":"join"}`)
		}
		sn, err := v.RestrictedJoinServername(content)
		if err != nil {
			return "err"
		}
		return "ok:" + hx([]byte(sn))
	case "parsepl":
		var c gmsl.PowerLevelContent
		if err := v.ParsePowerLevels([]byte(`{"ban":`+string(unhx(args[1]))+`}`), &c); err != nil {
			return "err"
		}
		return "ok:" + strconv.FormatInt(c.Ban, 10)
	case "redactkeys":
		out, err := v.RedactEventJSON(redactProbeEvent(args[1], csvArg(args[2]), csvArg(args[3])))
		if err != nil {
			return "err"
		}
		keys := func(r gjson.Result) string {
			var ks []string
			r.ForEach(func(k, _ gjson.Result) bool { ks = append(ks, k.String()); return true })
			sort.Strings(ks)
			return strings.Join(ks, ",")
		}
		res := gjson.ParseBytes(out)
		return "ok:top=" + keys(res) + ";content=" + keys(res.Get("content"))
	case "built":
		return builtProbe(v)
	}
	return "bad-op"
}

// builtProbe builds an event for the version and reports the format it has.
func builtProbe(v gmsl.IRoomVersion) string {
	sk := ""
	for nonce := 0; nonce < 64; nonce++ {
		eb := v.NewEventBuilderFromProtoEvent(&gmsl.ProtoEvent{
			SenderID: "@s:b", RoomID: "!r:b", Type: "m.room.topic", StateKey: &sk, Depth: 2,
			PrevEvents: []string{"$prev:b"}, AuthEvents: []string{"$auth:b"},
			Content: spec.RawJSON(`{"topic":"` + istr(nonce) + `"}`),
		})
		ev, err := eb.Build(time.UnixMilli(1700000000000), "b", "ed25519:1", vertableKey)
		if err != nil {
			return "err"
		}
		js := ev.JSON()
		// independent recomputation of the reference hash: redact, drop signatures / unsigned, canonicalise, SHA-256
		red, err := v.RedactEventJSON(js)
		if err != nil {
			return "err:redact"
		}
		var m map[string]json.RawMessage
		if err := json.Unmarshal(red, &m); err != nil {
			return "err:json"
		}
		delete(m, "signatures")
		delete(m, "unsigned")
		b, _ := json.Marshal(m)
		cj, err := gmsl.CanonicalJSON(b)
		if err != nil {
			return "err:canonical"
		}
		sum := sha256.Sum256(cj)
		std := base64.RawStdEncoding.EncodeToString(sum[:])
		url := base64.RawURLEncoding.EncodeToString(sum[:])
		if std == url {
			continue // the two encodings of this hash coincide: try another content
		}
		prev := gjson.GetBytes(js, "prev_events.0")
		prevKind := "other"
		if prev.Type == gjson.String {
			prevKind = "str"
		} else if prev.IsArray() && prev.Get("0").Type == gjson.String && prev.Get("1").IsObject() {
			prevKind = "ref"
		}
		id := ev.EventID()
		idKind := "other"
		switch {
		case id == "$"+std:
			idKind = "hash-std"
		case id == "$"+url:
			idKind = "hash-url"
		case strings.HasPrefix(id, "$") && strings.HasSuffix(id, ":b") && len(id) == 1+16+2:
			idKind = "domain"
		}
		return "ok:prev=" + prevKind + ";eid_in_json=" + b01(gjson.GetBytes(js, "event_id").Exists()) + ";id=" + idKind
	}
	return "harness:no-distinguishing-hash"
}

var redactProbeTop = []string{"auth_events", "content", "depth", "event_id", "foo", "hashes", "membership", "origin", "origin_server_ts",
	"prev_events", "prev_state", "redacts", "room_id", "sender", "signatures", "state_key", "type", "unsigned"}

var redactProbeContent = map[string][]string{
	"m.room.member":             {"membership", "join_authorised_via_users_server", "displayname", "avatar_url"},
	"m.room.create":             {"creator", "room_version", "m.federate", "predecessor"},
	"m.room.join_rules":         {"join_rule", "allow", "extra"},
	"m.room.power_levels":       {"ban", "events", "events_default", "kick", "redact", "state_default", "users", "users_default", "invite", "notifications"},
	"m.room.aliases":            {"aliases", "extra"},
	"m.room.history_visibility": {"history_visibility", "extra"},
	"m.room.redaction":          {"redacts", "reason"},
	"m.room.message":            {"body", "msgtype"},
	"m.room.topic":              {"topic"},
	"m.room.third_party_invite": {"display_name", "key_validity_url", "public_key", "public_keys"},
}

func genVertable(o *Out, tier string, r *Rng) {
	now := time.Now().UnixMilli()
	day := int64(24 * 3600 * 1000)
	types := make([]string, 0, len(redactProbeContent))
	for t := range redactProbeContent {
		types = append(types, t)
	}
	sort.Strings(types)
	for _, ver := range allVersions {
		o.Do("meta", ver)
		// key validity at boundary timestamps (all far enough from `now` not to depend on when the check runs)
		for _, p := range [][2]int64{
			{1000, 999}, {1000, 1000}, {1000, 1001}, {1000, 0}, {0, 0}, {1, 0},
			{now - 10*day, now - 11*day}, {now - 10*day, now - 10*day}, {now - 10*day, now - 9*day},
			{now + 3*day, now + 5*day},              // inside the 7-day window, covered
			{now + 30*day, now + 60*day},            // valid_until is capped at now + 7 days: not covered
			{now + 6*day, now + 60*day},             // capped, still covered
			{32503680000000, 32503680000001}, {32503680000001, 32503680000000},
		} {
			o.Do("sigvalid", ver, i64str(now), i64str(p[0]), i64str(p[1]))
		}
		for _, p := range [][2]string{{`[1.5]`, "0"}, {`[1]`, "1"}, {`{"a":-0}`, "0"}, {`[9007199254740992]`, "0"}, {`[9007199254740991]`, "1"},
			{`{"a":{"b":[1e2]}}`, "0"}, {`{"a":"1.5"}`, "1"}, {`[-9007199254740992]`, "0"}, {`[0]`, "1"}} {
			o.Do("canon", ver, hx([]byte(p[0])), p[1])
		}
		for _, jr := range []string{"knock", "knock_restricted", "invite", "public", "restricted", "-"} {
			for _, prev := range []string{"leave", "join", "invite", "ban", "knock", "-"} {
				o.Do("knock", ver, jr, prev)
			}
		}
		o.Do("rjallowed", ver)
		for _, val := range []string{"~", "@u:srv.example", "@u:srv.example:8448", "@u:[::1]:1", "nocolon", "@nocolon", "!u:srv", "", "@:srv", "@u:"} {
			a := "~"
			if val != "~" {
				a = hx([]byte(val))
			}
			o.Do("rjserver", ver, a)
		}
		for _, lit := range []string{`50`, `"50"`, `" 7 "`, `50.5`, `50.0`, `-3`, `"x"`, `true`, `1e2`} {
			o.Do("parsepl", ver, hx([]byte(lit)))
		}
		for _, t := range types {
			ck := append([]string{}, redactProbeContent[t]...)
			sort.Strings(ck)
			o.Do("redactkeys", ver, t, strings.Join(redactProbeTop, ","), strings.Join(ck, ","))
			// a sparse event: only the mandatory keys
			o.Do("redactkeys", ver, t, "content,type", "-")
		}
		o.Do("built", ver)
		o.Count("versions")
	}
	// a version that is not registered
	o.Do("meta", "13")
	o.Sample("vertable.meta 12 ; vertable.redactkeys 11 m.room.create ; vertable.built 3")
	_ = r
	_ = tier
}

func i64str(n int64) string { return strconv.FormatInt(n, 10) }
