package main

// Property ops of areas `event` (C03) and `redact` (C05): each op evaluates the relations the
// property states on what the real code returns and prints a verdict vector; the specification
// stream of the driver is the constant all-true vector.

import (
	"crypto/ed25519"
	"encoding/json"
	"strings"

	gmsl "github.com/matrix-org/gomatrixserverlib"
	"github.com/matrix-org/gomatrixserverlib/spec"
)

func bit01(b bool) string {
	if b {
		return "1"
	}
	return "0"
}

func splitEv(ev string) (string, []byte) {
	i := strings.IndexByte(ev, ':')
	return string(unhx(ev[:i])), unhx(ev[i+1:])
}

// verifyEventSig: does the signature of (name, kid) verify on the event, the way
// VerifyEventSignatures checks it (on the redacted form)?
func verifyEventSig(v gmsl.IRoomVersion, js []byte, name, kid string, pub ed25519.PublicKey) bool {
	red, err := v.RedactEventJSON(js)
	if err != nil {
		return false
	}
	return gmsl.VerifyJSON(name, gmsl.KeyID(kid), pub, red) == nil
}

func safeStr(f func() string) (res string) {
	defer func() {
		if r := recover(); r != nil {
			res = "PANIC"
		}
	}()
	return f()
}

// coreTuple: the fields C03 says survive a round trip.
func coreTuple(p gmsl.PDU) string {
	return strings.Join([]string{
		safeStr(func() string { return p.EventID() }), p.Type(), string(p.SenderID()),
		safeStr(func() string { r := p.RoomID(); return r.String() }), showOptStr(p.StateKey()),
		showRawCanon(p.Content()), itoa(p.Depth()), itoa(int64(p.OriginServerTS())),
		showIDs(p.PrevEventIDs()), safeStr(func() string { return showIDs(p.AuthEventIDs()) }),
	}, "\x00")
}

// redact.pdu_props <ver> <id>:<json> <name> <kid> <pub>
func execRedactPDUProps(ver, ev, name, kid string, pub []byte) string {
	id, js := splitEv(ev)
	v, err := gmsl.GetRoomVersion(gmsl.RoomVersion(ver))
	if err != nil {
		return "err:version"
	}
	p, err := v.NewEventFromTrustedJSONWithEventID(id, js, false)
	if err != nil {
		return "err:construct"
	}
	ids0 := strings.Join([]string{p.Type(), string(p.SenderID()), safeStr(func() string { r := p.RoomID(); return r.String() }), showOptStr(p.StateKey())}, "\x00")
	eid0 := p.EventID()
	sig0 := verifyEventSig(v, js, name, kid, pub)
	want, err := v.RedactEventJSON(js)
	if err != nil {
		return "err:redact"
	}
	want, _ = gmsl.CanonicalJSON(want)
	p.Redact()
	ids1 := strings.Join([]string{p.Type(), string(p.SenderID()), safeStr(func() string { r := p.RoomID(); return r.String() }), showOptStr(p.StateKey())}, "\x00")
	t1 := pduTuple(p, true)
	js1 := append([]byte{}, p.JSON()...)
	sig1 := verifyEventSig(v, js1, name, kid, pub)
	p.Redact()
	eidv := "na"
	if v.EventIDFormat() != gmsl.EventIDFormatV1 {
		eidv = bit01(p.EventID() == eid0)
	}
	return "ids=" + bit01(ids0 == ids1) + "|eid=" + eidv + "|red=" + bit01(p.Redacted()) + "|idem=" + bit01(pduTuple(p, true) == t1) +
		"|json=" + bit01(string(js1) == string(want)) + "|sig=" + bit01(!sig0 || sig1)
}

func execEventProps(op string, args []string) string {
	switch op {
	case "roundtrip": // <ver> <json of a built event>
		v, err := verOf(args[0])
		if err != nil {
			return "err:version"
		}
		js := unhx(args[1])
		ref, err := v.NewEventFromTrustedJSON(js, false)
		if err != nil {
			return "err:construct"
		}
		want := coreTuple(ref)
		same := func(p gmsl.PDU, err error) string {
			if err != nil {
				return "0"
			}
			return bit01(coreTuple(p) == want && !p.Redacted())
		}
		u := same(v.NewEventFromUntrustedJSON(js))
		t := same(v.NewEventFromTrustedJSONWithEventID(ref.EventID(), js, false))
		h := "0"
		if hj, err := ref.ToHeaderedJSON(); err == nil {
			h = same(gmsl.NewEventFromHeaderedJSON(hj, false))
		}
		v12 := "na"
		if v.DomainlessRoomIDs() {
			isCreate := ref.Type() == spec.MRoomCreate && ref.StateKeyEquals("")
			if isCreate {
				r := ref.RoomID()
				v12 = bit01(r.String() == "!"+ref.EventID()[1:])
			} else {
				a := ref.AuthEventIDs()
				var m map[string]json.RawMessage
				var room string
				_ = json.Unmarshal(js, &m)
				_ = json.Unmarshal(m["room_id"], &room)
				v12 = bit01(len(a) > 0 && len(room) > 0 && a[0] == "$"+room[1:])
			}
		}
		return "u=" + u + "|t=" + t + "|h=" + h + "|nr=" + bit01(!ref.Redacted()) + "|cf=" + bit01(gmsl.CheckFields(ref) == nil) + "|v12=" + v12
	case "idprops": // <ver> <json> <unsigned> <name> <kid> <seed>
		v, err := verOf(args[0])
		if err != nil {
			return "err:version"
		}
		js := unhx(args[1])
		mk := func() gmsl.PDU {
			p, err := v.NewEventFromTrustedJSON(js, false)
			if err != nil {
				panic("harness: construct")
			}
			return p
		}
		e := mk()
		id0 := e.EventID()
		su := "0"
		if p, err := e.SetUnsigned(json.RawMessage(unhx(args[2]))); err == nil {
			su = bit01(p.EventID() == id0)
		}
		// replace the signatures member altogether
		m := toMap(js)
		m["signatures"] = json.RawMessage(`{"elsewhere":{"ed25519:z":"c2ln"}}`)
		se := "0"
		if p, err := v.NewEventFromTrustedJSON(m.text(), false); err == nil {
			se = bit01(p.EventID() == id0)
		}
		delete(m, "signatures")
		if p, err := v.NewEventFromTrustedJSON(m.text(), false); err != nil || p.EventID() != id0 {
			se = "0"
		}
		sk := ed25519.NewKeyFromSeed(unhx(args[5]))
		sg := bit01(mk().Sign(string(unhx(args[3])), gmsl.KeyID(unhx(args[4])), sk).EventID() == id0)
		r := mk()
		r.Redact()
		rd := bit01(r.EventID() == id0)
		al := "na"
		switch v.EventIDFormat() {
		case gmsl.EventIDFormatV2:
			al = bit01(idAlphabetOK(id0, "ABCDEFGHIJKLMNOPQRSTUVWXYZabcdefghijklmnopqrstuvwxyz0123456789+/"))
		case gmsl.EventIDFormatV3:
			al = bit01(idAlphabetOK(id0, b64url))
		}
		return "su=" + su + "|se=" + se + "|sg=" + sg + "|rd=" + rd + "|al=" + al
	case "derived": // <ver> <json> <unsigned> <name> <kid> <seed>
		// C03 / C18: the events SetUnsigned, SetUnsignedField and Sign return report, through every accessor C03
		// lists, what the original reported (each accessor under recover: a panic shows as PANIC in the tuple)
		v, err := verOf(args[0])
		if err != nil {
			return "err:version"
		}
		js := unhx(args[1])
		mk := func() gmsl.PDU {
			p, err := v.NewEventFromTrustedJSON(js, false)
			if err != nil {
				panic("harness: construct")
			}
			return p
		}
		t0 := coreTuple(mk())
		su := "0"
		if p, err := mk().SetUnsigned(json.RawMessage(unhx(args[2]))); err == nil {
			su = bit01(coreTuple(p) == t0)
		}
		sf := "0"
		if p := mk(); p.SetUnsignedField("x", 1) == nil {
			sf = bit01(coreTuple(p) == t0)
		}
		sk := ed25519.NewKeyFromSeed(unhx(args[5]))
		sg := bit01(coreTuple(mk().Sign(string(unhx(args[3])), gmsl.KeyID(unhx(args[4])), sk)) == t0)
		return "su=" + su + "|sf=" + sf + "|sg=" + sg
	case "iddiff": // <ver> <json1> <json2>
		v, err := verOf(args[0])
		if err != nil {
			return "err:version"
		}
		a, err1 := v.NewEventFromTrustedJSON(unhx(args[1]), false)
		b, err2 := v.NewEventFromTrustedJSON(unhx(args[2]), false)
		if err1 != nil || err2 != nil {
			return "err:construct"
		}
		return "diff=" + bit01(a.EventID() != b.EventID())
	}
	return "bad-op"
}

func idAlphabetOK(id, alphabet string) bool {
	if len(id) != 44 || id[0] != '$' {
		return false
	}
	for _, c := range id[1:] {
		if !strings.ContainsRune(alphabet, c) {
			return false
		}
	}
	return true
}

// genEventProps: the C03 relations on one built event.
func genEventProps(o *Out, r *Rng, b *built) {
	hv := b.ver
	im := o.Do("roundtrip", hv, hx(b.json))
	o.Count("roundtrip." + im)
	other := Pick(r, signers)
	seed := make([]byte, 32)
	for i := range seed {
		seed[i] = byte(r.Intn(256))
	}
	u := Pick(r, []string{`{}`, `{"age":5}`, `{"prev_content":{"membership":"join"},"x":[1,2,{"y":null}]}`, `null`, `"str"`, `{"a.b":{"c*":1}}`})
	im = o.Do("idprops", hv, hx(b.json), hx([]byte(u)), hx([]byte(other.name)), hx([]byte(Pick(r, []string{"ed25519:new", string(b.sg.kid)}))), hx(seed))
	o.Count("idprops." + im)
	im = o.Do("derived", hv, hx(b.json), hx([]byte(u)), hx([]byte(other.name)), hx([]byte(Pick(r, []string{"ed25519:new", string(b.sg.kid)}))), hx(seed))
	o.Count("derived." + im)
	// a second event from a proto-event that differs in exactly one field
	pe := b.pe
	what := ""
	v := gmsl.MustGetRoomVersion(gmsl.RoomVersion(b.ver))
	now := b.now
	switch r.Intn(15) {
	case 0:
		pe.Type += "x"
		what = "type"
	case 1:
		pe.SenderID = "@zed:" + b.sg.name
		what = "sender"
	case 2:
		if pe.RoomID == "" {
			return
		}
		pe.RoomID = r.roomIDFor(b.ver)
		if pe.RoomID == b.pe.RoomID {
			return
		}
		what = "room"
	case 3:
		if pe.StateKey == nil {
			pe.StateKey = sp("k")
		} else {
			pe.StateKey = sp(*pe.StateKey + "k")
		}
		what = "state_key"
	case 4:
		c := toMap(pe.Content)
		c["zz_unprotected"] = rawStr("x")
		pe.Content = spec.RawJSON(c.text())
		what = "content-unprotected"
	case 5:
		c := toMap(pe.Content)
		k := Pick(r, redactContentKeys)
		c[k] = rawStr("changed-" + k)
		pe.Content = spec.RawJSON(c.text())
		what = "content-protected"
	case 6:
		pe.Depth++
		what = "depth"
	case 7:
		now = now.Add(1)
		now = now.Add(1e6)
		what = "ts"
	case 8:
		pe.PrevEvents = append(append([]string{}, pe.PrevEvents.([]string)...), r.eventIDs(b.ver, 1)...)
		what = "prev"
	case 9:
		pe.AuthEvents = append(append([]string{}, pe.AuthEvents.([]string)...), r.eventIDs(b.ver, 1)...)
		what = "auth"
	case 10:
		pe.Redacts = "$redacted" + r.id43()
		what = "redacts"
	case 11, 12:
		// a reference listed twice is a different list (the lists are hashed as given)
		prev, _ := pe.PrevEvents.([]string)
		auth, _ := pe.AuthEvents.([]string)
		if r.Bool() && len(prev) > 0 {
			pe.PrevEvents = append(append([]string{}, prev...), prev[r.Intn(len(prev))])
			what = "prev-repeat"
		} else if len(auth) > 0 {
			pe.AuthEvents = append(append([]string{}, auth...), auth[r.Intn(len(auth))])
			what = "auth-repeat"
		} else {
			return
		}
	case 13, 14:
		// the same references in another order
		prev, _ := pe.PrevEvents.([]string)
		auth, _ := pe.AuthEvents.([]string)
		swap := func(xs []string) []string {
			ys := append([]string{}, xs...)
			ys[0], ys[len(ys)-1] = ys[len(ys)-1], ys[0]
			return ys
		}
		if r.Bool() && len(prev) > 1 && prev[0] != prev[len(prev)-1] {
			pe.PrevEvents = swap(prev)
			what = "prev-order"
		} else if len(auth) > 1 && auth[0] != auth[len(auth)-1] && !(b.ver == "12" || b.ver == "org.matrix.hydra.11") {
			pe.AuthEvents = swap(auth)
			what = "auth-order"
		} else {
			return
		}
	}
	p2, err := v.NewEventBuilderFromProtoEvent(&pe).Build(now, spec.ServerName(b.sg.name), b.sg.kid, b.sg.sk)
	if err != nil {
		o.Count("iddiff.second-build-refused")
		return
	}
	im = o.Do("iddiff", hv, hx(b.json), hx(p2.JSON()))
	o.Count("iddiff." + what + "." + im)
}
