package main

// Area `fuzz` (C18): every public entry point reachable with remote data is driven with structure-aware mutations of
// valid inputs plus raw byte mutations, for every registered room version, under recover(). The outcome is "nopanic"
// (whatever the entry point returned) or "panic:<site>"; the model side answers "nopanic" for every input: the Lean
// theorems say the modelled sites are unreachable, this stream supports the site list (a panic at a site the model
// lacks is a broken correspondence AND a concrete violation).

import (
	"context"
	"crypto/sha256"
	"encoding/base64"
	"encoding/json"
	"fmt"
	"net/http"
	"strings"
	"time"

	gmsl "github.com/matrix-org/gomatrixserverlib"
	"github.com/matrix-org/gomatrixserverlib/fclient"
	"github.com/matrix-org/gomatrixserverlib/spec"
	"github.com/matrix-org/gomatrixserverlib/tokens"
	"golang.org/x/crypto/ed25519"
)

// fuzzKey signs events in the pipeline (fixed seed: Exec must be a pure function of its arguments).
var fuzzKey = ed25519.NewKeyFromSeed(make([]byte, ed25519.SeedSize))

func init() { areas["fuzz"] = Area{Gen: genFuzz, Exec: execFuzz} }

// okVerifier accepts every signature.
type okVerifier struct{}

func (okVerifier) VerifyJSONs(ctx context.Context, reqs []gmsl.VerifyJSONRequest) ([]gmsl.VerifyJSONResult, error) {
	return make([]gmsl.VerifyJSONResult, len(reqs)), nil
}

func touchAccessors(e gmsl.PDU) {
	_ = e.EventID()
	_ = e.StateKey()
	_ = e.StateKeyEquals("")
	_ = e.Type()
	_ = e.Content()
	_, _ = e.JoinRule()
	_, _ = e.HistoryVisibility()
	_, _ = e.Membership()
	_, _ = e.PowerLevels()
	_ = e.Version()
	_ = e.RoomID()
	_ = e.Redacts()
	_ = e.Redacted()
	_ = e.PrevEventIDs()
	_ = e.OriginServerTS()
	_ = e.SenderID()
	_ = e.SenderID().IsUserID()
	_ = e.SenderID().IsPseudoID()
	_ = e.SenderID().ToUserID()
	_ = e.SenderID().ToPseudoID()
	_ = e.Unsigned()
	_ = e.Depth()
	_ = e.JSON()
	_ = e.AuthEventIDs()
	_, _ = e.ToHeaderedJSON()
	_ = e.IsSticky(time.Unix(1, 0), time.Unix(2, 0))
	_ = e.StickyEndTime(time.Unix(2, 0))
	_, _ = e.SetUnsigned(map[string]interface{}{"a": 1})
	_ = gmsl.StateNeededForAuth([]gmsl.PDU{e})
	_ = gmsl.CheckFields(e)
}

// pipeline: parse as untrusted; everything that may then be applied to an accepted event.
func eventPipeline(ver string, js []byte, others [][]byte) {
	v, err := gmsl.GetRoomVersion(gmsl.RoomVersion(ver))
	if err != nil {
		return
	}
	var evs []gmsl.PDU
	for _, raw := range append([][]byte{js}, others...) {
		e, err := v.NewEventFromUntrustedJSON(raw)
		if err != nil {
			if ve, ok := err.(gmsl.EventValidationError); !ok || !ve.Persistable || e == nil {
				continue
			}
		}
		evs = append(evs, e)
	}
	for _, e := range evs {
		touchAccessors(e)
	}
	if len(evs) == 0 {
		return
	}
	e := evs[0]
	_ = gmsl.VerifyEventSignatures(context.Background(), e, okVerifier{}, StdQuerier)
	var state []gmsl.PDU
	for _, x := range evs[1:] {
		if x.StateKey() != nil {
			state = append(state, x)
		}
	}
	if prov, err := gmsl.NewAuthEvents(state); err == nil {
		_ = gmsl.Allowed(e, prov, StdQuerier)
	}
	for _, x := range evs {
		if x.StateKey() != nil {
			if prov, err := gmsl.NewAuthEvents([]gmsl.PDU{x}); err == nil {
				_ = gmsl.Allowed(e, prov, StdQuerier)
			}
		}
	}
	// orderings and state resolution over what parsed
	_ = gmsl.ReverseTopologicalOrdering(evs, gmsl.TopologicalOrderByAuthEvents)
	_ = gmsl.ReverseTopologicalOrdering(evs, gmsl.TopologicalOrderByPrevEvents)
	var sevs []gmsl.PDU
	for _, x := range evs {
		if x.StateKey() != nil {
			sevs = append(sevs, x)
		}
	}
	if len(sevs) > 0 {
		half := len(sevs)/2 + 1
		if half > len(sevs) {
			half = len(sevs)
		}
		_, _ = gmsl.ResolveConflictsNew(gmsl.RoomVersion(ver), [][]gmsl.PDU{sevs[:half], sevs}, evs, StdQuerier, func(string) bool { return false })
		_, _ = gmsl.ResolveConflicts(gmsl.RoomVersion(ver), sevs, evs, StdQuerier, func(string) bool { return false })
	}
	// SetUnsigned() returns a copy: every accessor must work on it as well
	if u, err := e.SetUnsigned(map[string]interface{}{"a": 1}); err == nil {
		touchAccessors(u)
	}
	// Sign() on WHATEVER was accepted (performinvite.go signs the event a remote server returned, HandleInvite /
	// HandleSendJoin counter-sign received events), then every accessor on the event it returns
	signed := e.Sign("me", "ed25519:1", fuzzKey)
	touchAccessors(signed)
	// redaction last (in place), of the signed event
	signed.Redact()
	touchAccessors(signed)
	_ = signed.SetUnsignedField("a", 1)
}

type fuzzStateResp struct{ state, auth gmsl.EventJSONs }

func (s fuzzStateResp) GetAuthEvents() gmsl.EventJSONs  { return s.auth }
func (s fuzzStateResp) GetStateEvents() gmsl.EventJSONs { return s.state }

func execFuzz(op string, args []string) string {
	ver := args[0]
	in := unhx(args[1])
	var others [][]byte
	for _, a := range args[2:] {
		others = append(others, unhx(a))
	}
	switch op {
	case "event":
		eventPipeline(ver, in, others)
	case "sign":
		// Sign() alone on whatever NewEventFromUntrustedJSON accepts (corpus witnesses of defect D1 of
		// lean/VModel/PanicSites.md: a `signatures` member that does not decode)
		if v, err := gmsl.GetRoomVersion(gmsl.RoomVersion(ver)); err == nil {
			if e, err := v.NewEventFromUntrustedJSON(in); err == nil {
				_ = e.Sign("me", "ed25519:1", fuzzKey)
			}
		}
	case "trusted":
		if v, err := gmsl.GetRoomVersion(gmsl.RoomVersion(ver)); err == nil {
			if e, err := v.NewEventFromTrustedJSON(in, false); err == nil {
				touchAccessors(e) // (Redact() is not called: trusted JSON is the caller's responsibility)
			}
			if e, err := v.NewEventFromTrustedJSONWithEventID("$x:y", in, false); err == nil {
				touchAccessors(e)
			}
			_, _ = v.RedactEventJSON(in)
			_ = v.CheckCanonicalJSON(in)
			_, _ = v.RestrictedJoinServername(in)
			var pl gmsl.PowerLevelContent
			_ = v.ParsePowerLevels(in, &pl)
		}
		if e, err := gmsl.NewEventFromHeaderedJSON(in, false); err == nil {
			touchAccessors(e)
		}
	case "json":
		_, _ = gmsl.CanonicalJSON(in)
		_, _ = gmsl.EnforcedCanonicalJSON(in, gmsl.RoomVersion(ver))
		_, _ = gmsl.ListKeyIDs("a", in)
		_ = gmsl.VerifyJSON("a", "ed25519:1", make([]byte, 32), in)
		_ = gmsl.VerifyJSON("a", "ed25519:1", []byte{1, 2, 3}, in)
		_, _ = gmsl.SignJSON("a", "ed25519:1", make([]byte, 64), in)
	case "keys":
		var k gmsl.ServerKeys
		if err := json.Unmarshal(in, &k); err == nil {
			_, _ = gmsl.CheckKeys(k.ServerName, time.Unix(0, 0), k)
			_, _ = gmsl.CheckKeys("a", time.Now(), k)
			_ = k.PublicKey("ed25519:1", 5)
			_, _ = json.Marshal(k)
		}
	case "header":
		_, _, _, _, _ = fclient.ParseAuthorization(string(in))
		req, err := http.NewRequest("PUT", "http://x/_matrix/federation/v1/send/1", strings.NewReader("{}"))
		if err == nil {
			req.Header.Set("Authorization", string(in))
			req.Header.Set("Content-Type", "application/json")
			_, _ = fclient.VerifyHTTPRequest(req, time.Now(), "x", func(spec.ServerName) bool { return true }, okVerifier{})
		}
	case "ident":
		s := string(in)
		_, _ = spec.NewUserID(s, true)
		_, _ = spec.NewUserID(s, false)
		if r, err := spec.NewRoomID(s); err == nil {
			_ = r.String()
			_ = r.OpaqueID()
		}
		_, _, _ = spec.ParseAndValidateServerName(spec.ServerName(s))
		_, _, _ = gmsl.SplitID('@', s)
		_ = spec.SenderID(s).IsUserID()
		_ = spec.SenderID(s).ToUserID()
		_ = spec.SenderID(s).ToPseudoID()
		var b spec.Base64Bytes
		_ = b.Decode(s)
		_ = b.UnmarshalJSON(in)
	case "resp":
		var rs fclient.RespState
		if err := json.Unmarshal(in, &rs); err == nil {
			_ = rs.GetStateEvents().UntrustedEvents(gmsl.RoomVersion(ver))
			_ = gmsl.LineariseStateResponse(gmsl.RoomVersion(ver), &rs)
			_, _, _ = gmsl.CheckStateResponse(context.Background(), &rs, gmsl.RoomVersion(ver), okVerifier{}, nil, StdQuerier)
		}
		var sj fclient.RespSendJoin
		if err := json.Unmarshal(in, &sj); err == nil {
			_ = sj.GetStateEvents().TrustedEvents(gmsl.RoomVersion(ver), false)
		}
		var ri fclient.RespInvite
		_ = json.Unmarshal(in, &ri)
		var mj fclient.RespMakeJoin
		if err := json.Unmarshal(in, &mj); err == nil {
			_ = mj.GetJoinEvent()
		}
		var ud fclient.RespUserDevices
		_ = json.Unmarshal(in, &ud)
		var tx gmsl.Transaction
		_ = json.Unmarshal(in, &tx)
	case "token":
		_, _ = tokens.GetUserFromToken(string(in))
		_ = tokens.ValidateToken(tokens.TokenOptions{ServerPrivateKey: []byte("k"), ServerName: "s", UserID: "@u:s"}, string(in))
	default:
		return "bad-op"
	}
	return "nopanic"
}

// ---- generators ----

var weirdStrings = []string{"", "!", "!a", "!:", "!a:", "!:b", "!a:b c", "!abc", "@", "@:", "@a", "@a:", "@:b", "$", "$a", "$:", "a:b", ":", "::", "@a:b:c",
	"!" + strings.Repeat("A", 43), "!" + strings.Repeat("A", 42), "!" + strings.Repeat("A", 44), "$" + strings.Repeat("A", 43), "@a:[::1]", "@a:[::1]:80", "@a:1.2.3.4", "@a:b:99999",
	strings.Repeat("x", 256), "@" + strings.Repeat("x", 255) + ":b", "\x00", "\xff\xfe", "é", "@é:b", "!r:hs1", "@creator:hs1", "m.room.member", "join", "ed25519:1", "org.matrix.msc4014"}

func (r *Rng) weirdValue() interface{} {
	switch r.Intn(14) {
	case 0:
		return nil
	case 1:
		return r.Bool()
	case 2:
		return Pick(r, []interface{}{0, -1, 1, 9007199254740991, int64(9007199254740992), int64(-9007199254740992), int64(9223372036854775807), int64(-9223372036854775808), 65536, 256})
	case 3:
		return json.RawMessage(Pick(r, []string{"1.5", "1e3", "-0", "1e400", "18446744073709551616", "0.0"}))
	case 4, 5, 6:
		return Pick(r, weirdStrings)
	case 7:
		return []interface{}{}
	case 8:
		return []interface{}{Pick(r, weirdStrings), 1, nil}
	case 9:
		return map[string]interface{}{}
	case 10:
		return map[string]interface{}{Pick(r, weirdStrings): r.weirdValue2()}
	case 11:
		return []interface{}{[]interface{}{Pick(r, weirdStrings), map[string]interface{}{"sha256": Pick(r, weirdStrings)}}}
	case 12:
		return map[string]interface{}{"signed": map[string]interface{}{"mxid": Pick(r, weirdStrings), "token": Pick(r, weirdStrings), "signatures": map[string]interface{}{"a": map[string]interface{}{"ed25519:1": Pick(r, weirdStrings)}}}}
	default:
		return strings.Repeat("y", r.Intn(70000))
	}
}
func (r *Rng) weirdValue2() interface{} {
	if r.Chance(50) {
		return Pick(r, weirdStrings)
	}
	return Pick(r, []interface{}{nil, 1, true, []interface{}{}, map[string]interface{}{}})
}

var fuzzTopKeys = []string{"type", "sender", "room_id", "state_key", "content", "redacts", "depth", "unsigned", "origin_server_ts", "event_id", "prev_events",
	"auth_events", "hashes", "signatures", "origin", "membership", "prev_state", "msc4354_sticky", "sticky", "_room_version", "_event_id", "outlier", "age_ts", "destinations", "Type", "ſender"}

var fuzzContentKeys = []string{"membership", "third_party_invite", "join_authorised_via_users_server", "mxid_mapping", "creator", "room_version", "m.federate",
	"additional_creators", "predecessor", "join_rule", "allow", "ban", "kick", "invite", "redact", "users", "users_default", "events", "events_default", "state_default",
	"notifications", "public_keys", "public_key", "key_validity_url", "display_name", "history_visibility", "aliases", "redacts", "duration_ms"}

// mutateEvent applies 1-3 structure-aware mutations to an event object.
func (r *Rng) mutateEvent(m map[string]interface{}) {
	n := 1 + r.Intn(3)
	for i := 0; i < n; i++ {
		switch r.Intn(6) {
		case 5:
			// a special event type, with the state key toggled
			m["type"] = Pick(r, []string{"m.room.create", "m.room.member", "m.room.power_levels", "m.room.join_rules", "m.room.third_party_invite", "m.room.aliases", "m.room.redaction"})
			switch r.Intn(3) {
			case 0:
				delete(m, "state_key")
			case 1:
				m["state_key"] = Pick(r, []string{"", "x", "@a:b", "@creator:hs1"})
			}
			if r.Chance(40) {
				delete(m, Pick(r, []string{"room_id", "content", "sender", "prev_events", "auth_events"}))
			}
		case 0, 1:
			m[Pick(r, fuzzTopKeys)] = r.weirdValue()
		case 2:
			delete(m, Pick(r, fuzzTopKeys))
		case 3, 4:
			c, _ := m["content"].(map[string]interface{})
			if c == nil {
				c = map[string]interface{}{}
			}
			c[Pick(r, fuzzContentKeys)] = r.weirdValue()
			m["content"] = c
		}
	}
}

// withHash adds the content hash the receiving server will compute (so that the event is accepted unredacted).
func withHash(m map[string]interface{}) {
	c := map[string]interface{}{}
	for k, v := range m {
		if k != "unsigned" && k != "signatures" && k != "hashes" {
			c[k] = v
		}
	}
	b, err := json.Marshal(c)
	if err != nil {
		return
	}
	cj, err := gmsl.CanonicalJSON(b)
	if err != nil {
		return
	}
	sum := sha256.Sum256(cj)
	m["hashes"] = map[string]interface{}{"sha256": base64.RawStdEncoding.EncodeToString(sum[:])}
}

func evMap(e *Ev) map[string]interface{} {
	var m map[string]interface{}
	d := json.NewDecoder(strings.NewReader(string(e.JSON)))
	d.UseNumber()
	_ = d.Decode(&m)
	return m
}

func genFuzz(o *Out, tier string, r *Rng) {
	n := 400
	if tier == "thorough" {
		n = 12000
	}
	for i := 0; i < n; i++ {
		ver := Pick(r, allVersions)
		h := GenHistory(r, ver, 3+r.Intn(8))
		if h == nil {
			continue
		}
		// events: one mutated, the rest of the room as context (some mutated too)
		target := Pick(r, h.All)
		m := evMap(target)
		r.mutateEvent(m)
		if r.Chance(60) {
			withHash(m)
		}
		tj, _ := json.Marshal(m)
		args := []string{ver, hx(tj)}
		for _, e := range h.All {
			if e == target {
				continue
			}
			if r.Chance(15) {
				mm := evMap(e)
				r.mutateEvent(mm)
				if r.Chance(60) {
					withHash(mm)
				}
				b, _ := json.Marshal(mm)
				args = append(args, hx(b))
			} else {
				args = append(args, hx(e.JSON))
			}
		}
		o.Do("event", args...)
		o.Do("trusted", ver, hx(tj))
		// directed: a `signatures` member of every JSON kind on an otherwise acceptable event (Sign() must cope)
		if r.Chance(30) {
			ms := evMap(target)
			ms["signatures"] = Pick(r, []interface{}{5, "x", true, []interface{}{}, map[string]interface{}{"a": 1}, map[string]interface{}{"a": "x"},
				map[string]interface{}{"a": map[string]interface{}{"ed25519:1": 5}}, map[string]interface{}{"a": map[string]interface{}{"ed25519:1": "!!"}},
				map[string]interface{}{"a": map[string]interface{}{"ed25519:1": map[string]interface{}{}}}, map[string]interface{}{"a": []interface{}{}},
				nil, map[string]interface{}{"a": nil}, map[string]interface{}{"a": map[string]interface{}{"ed25519:1": nil}}, map[string]interface{}{}})
			if r.Chance(70) {
				withHash(ms)
			}
			sj, _ := json.Marshal(ms)
			o.Do("event", ver, hx(sj))
			o.Count("event.signatures-shape")
		}
		// directed: TRUSTED JSON of an event that carries an event_id member (hashed-ID formats compute the ID; a stored
		// copy of the event may well carry one), in particular the create event of a room whose ID derives from it
		if r.Chance(30) {
			src := target
			if r.Chance(60) {
				src = h.All[0]
			}
			ms := evMap(src)
			ms["event_id"] = Pick(r, []string{"y", "", "$", "$x", "$" + strings.Repeat("A", 43), "$x:y", "!", "é"})
			if r.Chance(30) {
				delete(ms, "room_id")
			}
			ej, _ := json.Marshal(ms)
			o.Do("trusted", ver, hx(ej))
			o.Count("trusted.with-event_id")
		}
		// raw byte mutations of the same text
		o.Do("event", ver, hx(r.Malform(tj)))
		o.Do("trusted", ver, hx(r.Malform(tj)))
		// documents
		doc := r.RenderText(r.GenValue(3, true), r.RandStyle())
		o.Do("json", ver, hx(doc))
		o.Do("json", ver, hx(r.Malform(doc)))
		sig := map[string]interface{}{"a": r.weirdValue(), "signatures": r.weirdValue(), "unsigned": r.weirdValue()}
		sb, _ := json.Marshal(sig)
		o.Do("json", ver, hx(sb))
		// key responses
		keys := map[string]interface{}{"server_name": Pick(r, weirdStrings), "valid_until_ts": r.weirdValue(),
			"verify_keys":     map[string]interface{}{"ed25519:1": map[string]interface{}{"key": Pick(r, []string{"AAAA", "", "!", "Noi6WqcDj0QmPxCNQqgezwTlBKrfqehY1u2FyWP9uYw"})}},
			"old_verify_keys": map[string]interface{}{"ed25519:0": map[string]interface{}{"key": Pick(r, []string{"AAAA", "Noi6WqcDj0QmPxCNQqgezwTlBKrfqehY1u2FyWP9uYw"}), "expired_ts": r.weirdValue()}},
			"signatures":      r.weirdValue()}
		if r.Chance(50) {
			keys[Pick(r, []string{"verify_keys", "old_verify_keys", "server_name"})] = r.weirdValue()
		}
		kb, _ := json.Marshal(keys)
		o.Do("keys", ver, hx(kb))
		// headers
		hdr := Pick(r, []string{`X-Matrix origin="a",key="ed25519:1",sig="x",destination="x"`, `X-Matrix origin=a,key=,sig=`, `X-Matrix `, `X-Matrix`, ``, ` `, `X-Matrix ,,,`, `X-Matrix =`, `X-Matrix origin="`, `X-Matrix origin=""""`,
			`Bearer x`, "X-Matrix origin=\"a\",key=\"ed25519:1\",sig=\"" + strings.Repeat("A", 86) + "\"", `X-Matrix origin="[::1]:80",key="k",sig="s",destination="x"`})
		if r.Chance(40) {
			hdr = string(r.Malform([]byte(hdr)))
		}
		o.Do("header", ver, hx([]byte(hdr)))
		// identifiers
		id := Pick(r, weirdStrings)
		if r.Chance(30) {
			id = string(r.Malform([]byte(id)))
		}
		o.Do("ident", ver, hx([]byte(id)))
		// federation responses
		resp := map[string]interface{}{"pdus": []json.RawMessage{tj}, "auth_chain": []json.RawMessage{target.JSON}, "state": []json.RawMessage{tj},
			"event": json.RawMessage(tj), "origin": Pick(r, weirdStrings), "room_version": ver, "members_omitted": r.weirdValue()}
		if r.Chance(50) {
			resp[Pick(r, []string{"pdus", "auth_chain", "state", "event", "devices", "user_id", "stream_id", "edus"})] = r.weirdValue()
		}
		rb, _ := json.Marshal(resp)
		o.Do("resp", ver, hx(rb))
		o.Do("resp", ver, hx(r.Malform(rb)))
		// tokens
		tok := Pick(r, []string{"", "AAAA", "!!!!", "MDAxY2xvY2F0aW9uIHMKMDAxM2lkZW50aWZpZXIgQHU6cwowMDEwY2lkIGdlbiA9IDEK", strings.Repeat("A", 500)})
		o.Do("token", ver, hx(r.Malform([]byte(tok))))
		if i < 3 {
			o.Sample(fmt.Sprintf("%s %s", ver, string(tj)))
		}
	}
}
