package main

// Area `fuzz` (C18): every public entry point reachable with remote data is driven with structure-aware mutations of
// valid inputs plus raw byte mutations, for every registered room version, under recover(). The outcome is "nopanic"
// (whatever the entry point returned) or "panic:<site>"; the model side answers "nopanic" for every input: the Lean
// theorems say the modelled sites are unreachable, this stream supports the site list (a panic at a site the model
// lacks is a broken correspondence AND a concrete violation).

import (
	"bytes"
	"context"
	"crypto/sha256"
	"encoding/base64"
	"encoding/json"
	"fmt"
	"net/http"
	"sort"
	"strings"
	"time"

	gmsl "github.com/matrix-org/gomatrixserverlib"
	"github.com/matrix-org/gomatrixserverlib/fclient"
	"github.com/matrix-org/gomatrixserverlib/spec"
	"github.com/matrix-org/gomatrixserverlib/tokens"
	"github.com/tidwall/gjson"
	"golang.org/x/crypto/ed25519"
)

// fuzzKey signs events in the pipeline (fixed seed: Exec must be a pure function of its arguments).
var fuzzKey = ed25519.NewKeyFromSeed(make([]byte, ed25519.SeedSize))

func init() { areas["fuzz"] = Area{Gen: genFuzz, Exec: execFuzz} }

// NilQuerier answers like StdQuerier for a sender that is a user ID and (nil, nil) — "no such user, no error" — for
// every other sender: what a pseudo-ID homeserver's querier does for a room key it does not know (the repository's own
// NilUserIDForBadSenderTest does the same for one fixed sender).
func NilQuerier(roomID spec.RoomID, senderID spec.SenderID) (*spec.UserID, error) {
	u, err := spec.NewUserID(string(senderID), true)
	if err != nil {
		return nil, nil
	}
	return u, nil
}

// okVerifier accepts every signature.
type okVerifier struct{}

func (okVerifier) VerifyJSONs(ctx context.Context, reqs []gmsl.VerifyJSONRequest) ([]gmsl.VerifyJSONResult, error) {
	return make([]gmsl.VerifyJSONResult, len(reqs)), nil
}

func touchAccessors(e gmsl.PDU) {
	_ = e.EventID()
	_ = e.StateKey()
	_ = e.StateKeyEquals("")
	_ = e.Type()
	_ = e.Content()
	_, _ = e.JoinRule()
	_, _ = e.HistoryVisibility()
	_, _ = e.Membership()
	_, _ = e.PowerLevels()
	_ = e.Version()
	_ = e.RoomID()
	_ = e.Redacts()
	_ = e.Redacted()
	_ = e.PrevEventIDs()
	_ = e.OriginServerTS()
	_ = e.SenderID()
	_ = e.SenderID().IsUserID()
	_ = e.SenderID().IsPseudoID()
	_ = e.SenderID().ToUserID()
	_ = e.SenderID().ToPseudoID()
	_ = e.Unsigned()
	_ = e.Depth()
	_ = e.JSON()
	_ = e.AuthEventIDs()
	_, _ = e.ToHeaderedJSON()
	_ = e.IsSticky(time.Unix(1, 0), time.Unix(2, 0))
	_ = e.StickyEndTime(time.Unix(2, 0))
	_, _ = e.SetUnsigned(map[string]interface{}{"a": 1})
	_ = gmsl.StateNeededForAuth([]gmsl.PDU{e})
	_ = gmsl.CheckFields(e)
}

// pipeline: parse as untrusted; everything that may then be applied to an accepted event.
func eventPipeline(ver string, js []byte, others [][]byte) {
	v, err := gmsl.GetRoomVersion(gmsl.RoomVersion(ver))
	if err != nil {
		return
	}
	var evs []gmsl.PDU
	for _, raw := range append([][]byte{js}, others...) {
		e, err := v.NewEventFromUntrustedJSON(raw)
		if err != nil {
			if ve, ok := err.(gmsl.EventValidationError); !ok || !ve.Persistable || e == nil {
				continue
			}
		}
		evs = append(evs, e)
	}
	for _, e := range evs {
		touchAccessors(e)
	}
	if len(evs) == 0 {
		return
	}
	e := evs[0]
	_ = gmsl.VerifyEventSignatures(context.Background(), e, okVerifier{}, StdQuerier)
	_ = gmsl.VerifyEventSignatures(context.Background(), e, okVerifier{}, NilQuerier)
	var state []gmsl.PDU
	for _, x := range evs[1:] {
		if x.StateKey() != nil {
			state = append(state, x)
		}
	}
	// (both queriers: the standard one never answers (nil, nil), a pseudo-ID querier does for an unknown key)
	if prov, err := gmsl.NewAuthEvents(state); err == nil {
		_ = gmsl.Allowed(e, prov, StdQuerier)
		_ = gmsl.Allowed(e, prov, NilQuerier)
		for _, x := range evs[1:] {
			_ = gmsl.Allowed(x, prov, NilQuerier)
		}
	}
	for _, x := range evs {
		if x.StateKey() != nil {
			if prov, err := gmsl.NewAuthEvents([]gmsl.PDU{x}); err == nil {
				_ = gmsl.Allowed(e, prov, StdQuerier)
				_ = gmsl.Allowed(e, prov, NilQuerier)
			}
		}
	}
	// orderings and state resolution over what parsed
	_ = gmsl.ReverseTopologicalOrdering(evs, gmsl.TopologicalOrderByAuthEvents)
	_ = gmsl.ReverseTopologicalOrdering(evs, gmsl.TopologicalOrderByPrevEvents)
	var sevs []gmsl.PDU
	for _, x := range evs {
		if x.StateKey() != nil {
			sevs = append(sevs, x)
		}
	}
	if len(sevs) > 0 {
		half := len(sevs)/2 + 1
		if half > len(sevs) {
			half = len(sevs)
		}
		_, _ = gmsl.ResolveConflictsNew(gmsl.RoomVersion(ver), [][]gmsl.PDU{sevs[:half], sevs}, evs, StdQuerier, func(string) bool { return false })
		_, _ = gmsl.ResolveConflicts(gmsl.RoomVersion(ver), sevs, evs, StdQuerier, func(string) bool { return false })
		_, _ = gmsl.ResolveConflictsNew(gmsl.RoomVersion(ver), [][]gmsl.PDU{sevs[:half], sevs}, evs, NilQuerier, func(string) bool { return false })
		_, _ = gmsl.ResolveConflicts(gmsl.RoomVersion(ver), sevs, evs, NilQuerier, func(string) bool { return false })
	}
	// SetUnsigned() returns a copy: every accessor must work on it as well
	if u, err := e.SetUnsigned(map[string]interface{}{"a": 1}); err == nil {
		touchAccessors(u)
	}
	// Sign() on WHATEVER was accepted (performinvite.go signs the event a remote server returned, HandleInvite /
	// HandleSendJoin counter-sign received events), then every accessor on the event it returns
	signed := e.Sign("me", "ed25519:1", fuzzKey)
	touchAccessors(signed)
	// redaction last (in place), of the signed event
	signed.Redact()
	touchAccessors(signed)
	_ = signed.SetUnsignedField("a", 1)
}

type fuzzStateResp struct{ state, auth gmsl.EventJSONs }

func (s fuzzStateResp) GetAuthEvents() gmsl.EventJSONs  { return s.auth }
func (s fuzzStateResp) GetStateEvents() gmsl.EventJSONs { return s.state }

func execFuzz(op string, args []string) string {
	ver := args[0]
	in := unhx(args[1])
	var others [][]byte
	if op == "event" {
		for _, a := range args[2:] {
			others = append(others, unhx(a))
		}
	}
	switch op {
	case "event":
		eventPipeline(ver, in, others)
	case "sign":
		// Sign() alone on whatever NewEventFromUntrustedJSON accepts (corpus witnesses of defect D1 of
		// lean/VModel/PanicSites.md: a `signatures` member that does not decode)
		if v, err := gmsl.GetRoomVersion(gmsl.RoomVersion(ver)); err == nil {
			if e, err := v.NewEventFromUntrustedJSON(in); err == nil {
				_ = e.Sign("me", "ed25519:1", fuzzKey)
			}
		}
	case "trusted":
		if v, err := gmsl.GetRoomVersion(gmsl.RoomVersion(ver)); err == nil {
			if e, err := v.NewEventFromTrustedJSON(in, false); err == nil {
				touchAccessors(e) // (Redact() is not called: trusted JSON is the caller's responsibility)
			}
			if e, err := v.NewEventFromTrustedJSONWithEventID("$x:y", in, false); err == nil {
				touchAccessors(e)
			}
			_, _ = v.RedactEventJSON(in)
			_ = v.CheckCanonicalJSON(in)
			_, _ = v.RestrictedJoinServername(in)
			var pl gmsl.PowerLevelContent
			_ = v.ParsePowerLevels(in, &pl)
		}
		if e, err := gmsl.NewEventFromHeaderedJSON(in, false); err == nil {
			touchAccessors(e)
		}
	case "json":
		_, _ = gmsl.CanonicalJSON(in)
		_, _ = gmsl.EnforcedCanonicalJSON(in, gmsl.RoomVersion(ver))
		_, _ = gmsl.ListKeyIDs("a", in)
		_ = gmsl.VerifyJSON("a", "ed25519:1", make([]byte, 32), in)
		_ = gmsl.VerifyJSON("a", "ed25519:1", []byte{1, 2, 3}, in)
		_, _ = gmsl.SignJSON("a", "ed25519:1", make([]byte, 64), in)
	case "keys":
		var k gmsl.ServerKeys
		if err := json.Unmarshal(in, &k); err == nil {
			_, _ = gmsl.CheckKeys(k.ServerName, time.Unix(0, 0), k)
			_, _ = gmsl.CheckKeys("a", time.Now(), k)
			_ = k.PublicKey("ed25519:1", 5)
			_, _ = json.Marshal(k)
		}
	case "header":
		_, _, _, _, _ = fclient.ParseAuthorization(string(in))
		req, err := http.NewRequest("PUT", "http://x/_matrix/federation/v1/send/1", strings.NewReader("{}"))
		if err == nil {
			req.Header.Set("Authorization", string(in))
			req.Header.Set("Content-Type", "application/json")
			_, _ = fclient.VerifyHTTPRequest(req, time.Now(), "x", func(spec.ServerName) bool { return true }, okVerifier{})
		}
	case "ident":
		s := string(in)
		_, _ = spec.NewUserID(s, true)
		_, _ = spec.NewUserID(s, false)
		if r, err := spec.NewRoomID(s); err == nil {
			_ = r.String()
			_ = r.OpaqueID()
		}
		_, _, _ = spec.ParseAndValidateServerName(spec.ServerName(s))
		_, _, _ = gmsl.SplitID('@', s)
		_ = spec.SenderID(s).IsUserID()
		_ = spec.SenderID(s).ToUserID()
		_ = spec.SenderID(s).ToPseudoID()
		var b spec.Base64Bytes
		_ = b.Decode(s)
		_ = b.UnmarshalJSON(in)
	case "resp":
		var rs fclient.RespState
		if err := json.Unmarshal(in, &rs); err == nil {
			_ = rs.GetStateEvents().UntrustedEvents(gmsl.RoomVersion(ver))
			_ = gmsl.LineariseStateResponse(gmsl.RoomVersion(ver), &rs)
			_, _, _ = gmsl.CheckStateResponse(context.Background(), &rs, gmsl.RoomVersion(ver), okVerifier{}, nil, StdQuerier)
			_, _, _ = gmsl.CheckStateResponse(context.Background(), &rs, gmsl.RoomVersion(ver), okVerifier{}, nil, NilQuerier)
		}
		var sj fclient.RespSendJoin
		if err := json.Unmarshal(in, &sj); err == nil {
			_ = sj.GetStateEvents().TrustedEvents(gmsl.RoomVersion(ver), false)
			// CheckSendJoinResponse with the first event of the response that parses standing in for the join event
			if v, verr := gmsl.GetRoomVersion(gmsl.RoomVersion(ver)); verr == nil {
				var je gmsl.PDU
				for _, raw := range append(append(gmsl.EventJSONs{sj.GetJoinEvent()}, sj.GetStateEvents()...), sj.GetAuthEvents()...) {
					if e, err := v.NewEventFromUntrustedJSON(raw); err == nil {
						je = e
						break
					}
				}
				if je != nil {
					_, _ = gmsl.CheckSendJoinResponse(context.Background(), gmsl.RoomVersion(ver), &sj, okVerifier{}, je, nil, StdQuerier)
					_, _ = gmsl.CheckSendJoinResponse(context.Background(), gmsl.RoomVersion(ver), &sj, okVerifier{}, je, nil, NilQuerier)
				}
			}
		}
		var ri fclient.RespInvite
		_ = json.Unmarshal(in, &ri)
		var mj fclient.RespMakeJoin
		if err := json.Unmarshal(in, &mj); err == nil {
			_ = mj.GetJoinEvent()
		}
		var ud fclient.RespUserDevices
		_ = json.Unmarshal(in, &ud)
		var tx gmsl.Transaction
		_ = json.Unmarshal(in, &tx)
	case "makejoin":
		// a make_join / make_leave / make_knock response (or a v3 invite request): the proto event the REMOTE server chose is
		// turned into an event builder and built (PerformJoin: `respMakeJoin.GetJoinEvent()` ->
		// `NewEventBuilderFromProtoEvent(&joinEvent).Build(...)`), for the version of the op and for the response's own
		var mj fclient.RespMakeJoin
		if err := json.Unmarshal(in, &mj); err == nil {
			buildProto(ver, mj.GetJoinEvent(), mj.GetRoomVersion())
		}
		var ml fclient.RespMakeLeave
		if err := json.Unmarshal(in, &ml); err == nil {
			buildProto(ver, ml.LeaveEvent, ml.RoomVersion)
		}
		var mk fclient.RespMakeKnock
		if err := json.Unmarshal(in, &mk); err == nil {
			buildProto(ver, mk.KnockEvent, mk.RoomVersion)
		}
		var i3 fclient.InviteV3Request
		if err := json.Unmarshal(in, &i3); err == nil {
			buildProto(ver, i3.Event(), i3.RoomVersion())
			_ = i3.InviteRoomState()
			_, _ = json.Marshal(i3)
		}
	case "buildrefs":
		// the reference conversion alone (model: EventBuild.refsOfJSON): a proto event whose other fields are fixed and good
		return buildRefs(ver, args[1], args[2])
	case "fedtypes":
		fedTypes(ver, in)
	case "headered":
		// headered JSON is the homeserver's own storage format: `_event_id` / `_room_version` are written by ToHeaderedJSON.
		// The accessors are swept when `_event_id` is the ID the library itself gives the event (with any other ID,
		// EventID() / RoomID() are the caller's contract: NewEventFromTrustedJSONWithEventID takes the ID as given)
		for _, redacted := range []bool{false, true} {
			e, err := gmsl.NewEventFromHeaderedJSON(in, redacted)
			if err != nil || e == nil {
				continue
			}
			_ = e.Type()
			_ = e.Content()
			_ = e.StateKey()
			_ = e.SenderID()
			_ = e.JSON()
			_ = e.Version()
			_ = e.Redacted()
			v, verr := gmsl.GetRoomVersion(e.Version())
			if verr != nil {
				continue
			}
			own, oerr := v.NewEventFromTrustedJSON(e.JSON(), redacted)
			if oerr != nil || own == nil {
				continue
			}
			hid := gjson.GetBytes(in, "_event_id")
			if hid.Type == gjson.String && hid.String() != "" && own.EventID() == hid.String() {
				touchAccessors(e)
				if hj, err := e.ToHeaderedJSON(); err == nil {
					if e2, err := gmsl.NewEventFromHeaderedJSON(hj, redacted); err == nil {
						touchAccessors(e2)
					}
				}
			}
		}
	case "text":
		// the text / JSON codecs of the small types that appear inside bodies and map keys
		var lr gmsl.PublicKeyLookupRequest
		if err := lr.UnmarshalText(in); err == nil {
			_, _ = lr.MarshalText()
		}
		var lm map[gmsl.PublicKeyLookupRequest]spec.Timestamp
		if err := json.Unmarshal(in, &lm); err == nil {
			_, _ = json.Marshal(lm)
		}
		var hs gmsl.HexString
		if err := hs.UnmarshalJSON(in); err == nil {
			_, _ = hs.MarshalJSON()
		}
		var b64 spec.Base64Bytes
		if err := b64.UnmarshalJSON(in); err == nil {
			_, _ = b64.MarshalJSON()
			_ = b64.Encode()
		}
		_ = b64.Decode(string(in))
		_ = b64.Scan(in)
		_ = b64.Scan(string(in))
		_, _ = b64.Value()
		var raw spec.RawJSON
		if err := raw.UnmarshalJSON(in); err == nil {
			_, _ = raw.MarshalJSON()
		}
		var ts spec.Timestamp
		if err := json.Unmarshal(in, &ts); err == nil {
			_ = ts.Time()
		}
		var iss gmsl.InviteStrippedState
		if err := json.Unmarshal(in, &iss); err == nil {
			_, _ = json.Marshal(iss)
			_ = iss.Content()
			_ = iss.StateKey()
			_ = iss.Type()
			_ = iss.Sender()
		}
		var pl gmsl.PowerLevelContent
		if err := json.Unmarshal(in, &pl); err == nil {
			_ = pl.UserLevel("@a:b")
			_ = pl.EventLevel("m.room.name", true)
			_ = pl.NotificationLevel("room")
		}
		var mc gmsl.MemberContent
		_ = json.Unmarshal(in, &mc)
		var tpi gmsl.ThirdPartyInviteContent
		_ = json.Unmarshal(in, &tpi)
		var mm gmsl.MXIDMapping
		if err := json.Unmarshal(in, &mm); err == nil {
			_ = mm.Sign("me", "ed25519:1", fuzzKey)
		}
		var sk gmsl.ServerKeys
		if err := json.Unmarshal(in, &sk); err == nil {
			_, _ = json.Marshal(sk)
			_ = sk.PublicKey("ed25519:1", 5)
			_, _ = gmsl.CheckKeys(sk.ServerName, time.Unix(0, 0), sk)
		}
	case "xsign":
		var k fclient.CrossSigningKey
		if err := json.Unmarshal(in, &k); err == nil {
			var k2 fclient.CrossSigningKey
			_ = json.Unmarshal(in, &k2)
			_ = k.Equal(&k2)
			_ = k.Equal(nil)
			_, _ = json.Marshal(k)
		}
		var ks fclient.CrossSigningKeys
		if err := json.Unmarshal(in, &ks); err == nil {
			_ = ks.MasterKey.Equal(&ks.SelfSigningKey)
			_, _ = json.Marshal(ks)
		}
		var kd fclient.CrossSigningForKeyOrDevice
		if err := json.Unmarshal(in, &kd); err == nil {
			_, _ = json.Marshal(kd)
		}
		var m map[string]map[string]fclient.CrossSigningForKeyOrDevice
		if err := json.Unmarshal(in, &m); err == nil {
			_, _ = json.Marshal(m)
		}
		var dk fclient.DeviceKeys
		if err := json.Unmarshal(in, &dk); err == nil {
			_, _ = json.Marshal(dk)
		}
		var qk fclient.RespQueryKeys
		if err := json.Unmarshal(in, &qk); err == nil {
			_, _ = json.Marshal(qk)
		}
		var ck fclient.RespClaimKeys
		_ = json.Unmarshal(in, &ck)
	case "invite":
		var i2 fclient.InviteV2Request
		if err := json.Unmarshal(in, &i2); err == nil {
			if e := i2.Event(); e != nil {
				touchAccessors(e)
			}
			_ = i2.RoomVersion()
			_ = i2.InviteRoomState()
			_, _ = json.Marshal(i2)
		}
		var i3 fclient.InviteV3Request
		if err := json.Unmarshal(in, &i3); err == nil {
			pe := i3.Event()
			_ = i3.RoomVersion()
			_ = i3.InviteRoomState()
			_, _ = json.Marshal(i3)
			_, _ = gmsl.StateNeededForProtoEvent(&pe)
		}
		var ri fclient.RespInvite
		if err := json.Unmarshal(in, &ri); err == nil {
			_, _ = json.Marshal(ri)
			if v, err := gmsl.GetRoomVersion(gmsl.RoomVersion(ver)); err == nil {
				if e, err := v.NewEventFromUntrustedJSON(ri.Event); err == nil {
					touchAccessors(e)
				}
			}
		}
		var ri2 fclient.RespInviteV2
		if err := json.Unmarshal(in, &ri2); err == nil {
			if v, err := gmsl.GetRoomVersion(gmsl.RoomVersion(ver)); err == nil {
				if e, err := v.NewEventFromUntrustedJSON(ri2.Event); err == nil {
					touchAccessors(e)
					_ = e.Sign("me", "ed25519:1", fuzzKey)
				}
			}
		}
	case "txn":
		var tx gmsl.Transaction
		if err := json.Unmarshal(in, &tx); err == nil {
			_, _ = json.Marshal(tx)
			for _, edu := range tx.EDUs {
				_ = edu.CacheCost()
				_, _ = json.Marshal(edu)
			}
			if v, err := gmsl.GetRoomVersion(gmsl.RoomVersion(ver)); err == nil {
				var evs []gmsl.PDU
				for _, raw := range tx.PDUs {
					if e, err := v.NewEventFromUntrustedJSON(raw); err == nil {
						touchAccessors(e)
						evs = append(evs, e)
					}
				}
				_ = gmsl.ReverseTopologicalOrdering(evs, gmsl.TopologicalOrderByPrevEvents)
			}
		}
		var edu gmsl.EDU
		if err := json.Unmarshal(in, &edu); err == nil {
			_ = edu.CacheCost()
		}
		var rs fclient.RespSend
		_ = json.Unmarshal(in, &rs)
	case "httpreq":
		// VerifyHTTPRequest on a request with up to two Authorization headers, a chosen Content-Type, method, URI and body
		hdr1, hdr2, ctype, method, uri, body := string(unhx(args[1])), string(unhx(args[2])), string(unhx(args[3])), string(unhx(args[4])), string(unhx(args[5])), unhx(args[6])
		req, err := http.NewRequest(method, "http://x"+uri, bytes.NewReader(body))
		if err == nil {
			if hdr1 != "" {
				req.Header.Add("Authorization", hdr1)
			}
			if hdr2 != "" {
				req.Header.Add("Authorization", hdr2)
			}
			if ctype != "" {
				req.Header.Set("Content-Type", ctype)
			}
			fr, _ := fclient.VerifyHTTPRequest(req, time.Unix(1, 0), "x", func(spec.ServerName) bool { return true }, okVerifier{})
			if fr != nil {
				_ = fr.Content()
				_ = fr.Origin()
				_ = fr.Destination()
				_ = fr.Method()
				_ = fr.RequestURI()
				_, _ = fr.HTTPRequest()
			}
			req2, err := http.NewRequest(method, "http://x"+uri, bytes.NewReader(body))
			if err == nil {
				req2.Header = req.Header
				_, _ = fclient.VerifyHTTPRequest(req2, time.Unix(1, 0), "x", func(spec.ServerName) bool { return false }, okVerifier{})
			}
		}
	case "token":
		_, _ = tokens.GetUserFromToken(string(in))
		_ = tokens.ValidateToken(tokens.TokenOptions{ServerPrivateKey: []byte("k"), ServerName: "s", UserID: "@u:s"}, string(in))
	default:
		return "bad-op"
	}
	return "nopanic"
}


// ---- proto events chosen by the remote server (make_join / make_leave / make_knock responses, v3 invites) ----

func builtSweep(v gmsl.IRoomVersion, pe gmsl.ProtoEvent, withAuth bool) {
	eb := v.NewEventBuilderFromProtoEvent(&pe)
	if withAuth {
		if prov, err := gmsl.NewAuthEvents(nil); err == nil {
			_ = eb.AddAuthEvents(prov)
		}
	}
	if e, err := eb.Build(time.Unix(1, 0), "me", "ed25519:1", fuzzKey); err == nil && e != nil {
		touchAccessors(e)
	}
}

// buildProto builds the proto event (a) as received, (b) with the fields PerformJoin overwrites set to good values —
// what stays under the remote server's control then is prev_events, auth_events, depth, signatures and the content
// members — and (c) after AddAuthEvents; for the version of the op and for the version the response names.
func buildProto(ver string, pe gmsl.ProtoEvent, respVer gmsl.RoomVersion) {
	_, _ = gmsl.StateNeededForProtoEvent(&pe)
	vers := []gmsl.RoomVersion{gmsl.RoomVersion(ver)}
	if respVer != "" && string(respVer) != ver {
		vers = append(vers, respVer)
	}
	for _, rv := range vers {
		v, err := gmsl.GetRoomVersion(rv)
		if err != nil {
			continue
		}
		builtSweep(v, pe, false)
		pj := pe
		pj.Type = spec.MRoomMember
		pj.RoomID = "!r:me"
		if v.DomainlessRoomIDs() {
			pj.RoomID = "!" + strings.Repeat("A", 43)
		}
		pj.Redacts = ""
		sk := "@u:me"
		pj.SenderID = sk
		pj.StateKey = &sk
		content := map[string]interface{}{}
		_ = json.Unmarshal(pe.Content, &content)
		if content == nil { // (PerformJoin writes into the nil map here: the handshake area's finding, not this stream's)
			content = map[string]interface{}{}
		}
		content["membership"] = spec.Join
		_ = pj.SetContent(content)
		_ = pj.SetUnsigned(struct{}{})
		builtSweep(v, pj, false)
		builtSweep(v, pj, true)
	}
}

// buildRefs: `EventBuilder.Build` on a proto event whose prev_events / auth_events are the decoded JSON texts given
// ("-" = member absent) and whose other fields are fixed.  Outcome: ok:<hex prev_events of the built event>:<hex
// auth_events>, or err.
func buildRefs(ver, prevHex, authHex string) string {
	v, err := gmsl.GetRoomVersion(gmsl.RoomVersion(ver))
	if err != nil {
		return "err:version"
	}
	dec := func(h string) interface{} {
		if h == "-" {
			return nil
		}
		var x interface{}
		if err := json.Unmarshal(unhx(h), &x); err != nil {
			return nil
		}
		return x
	}
	sk := "@u:me"
	pe := gmsl.ProtoEvent{SenderID: sk, RoomID: "!r:me", Type: spec.MRoomMember, StateKey: &sk, PrevEvents: dec(prevHex), AuthEvents: dec(authHex),
		Depth: 1, Content: spec.RawJSON(`{"membership":"join"}`)}
	if v.DomainlessRoomIDs() {
		pe.RoomID = "!" + strings.Repeat("A", 43)
	}
	e, err := v.NewEventBuilderFromProtoEvent(&pe).Build(time.Unix(1, 0), "me", "ed25519:1", fuzzKey)
	if err != nil || e == nil {
		return "err"
	}
	var m map[string]json.RawMessage
	if err := json.Unmarshal(e.JSON(), &m); err != nil {
		return "err:json"
	}
	return "ok:" + hx(m["prev_events"]) + ":" + hx(m["auth_events"])
}

// ownEventID is the ID the library gives an event it reads from trusted JSON ("" when it refuses the text).
func ownEventID(ver string, js []byte) (id string) {
	defer func() {
		if recover() != nil {
			id = ""
		}
	}()
	v, err := gmsl.GetRoomVersion(gmsl.RoomVersion(ver))
	if err != nil {
		return ""
	}
	e, err := v.NewEventFromTrustedJSON(js, false)
	if err != nil || e == nil {
		return ""
	}
	return e.EventID()
}

// fedTypes decodes one body into every response / request type of fclient/federationtypes.go and calls the accessors.
func fedTypes(ver string, in []byte) {
	rv := gmsl.RoomVersion(ver)
	var rs fclient.RespState
	if err := json.Unmarshal(in, &rs); err == nil {
		_ = rs.GetStateEvents().UntrustedEvents(rv)
		_ = rs.GetAuthEvents().UntrustedEvents(rv)
		_ = rs.GetAuthEvents().TrustedEvents(rv, false)
		_, _ = json.Marshal(rs)
		_ = gmsl.LineariseStateResponse(rv, &rs)
	}
	var pk fclient.RespPeek
	if err := json.Unmarshal(in, &pk); err == nil {
		_ = pk.GetStateEvents().UntrustedEvents(rv)
		_ = pk.GetAuthEvents().UntrustedEvents(rv)
		_, _ = json.Marshal(pk)
	}
	var sj fclient.RespSendJoin
	if err := json.Unmarshal(in, &sj); err == nil {
		_ = sj.GetStateEvents().UntrustedEvents(rv)
		_ = sj.GetAuthEvents().UntrustedEvents(rv)
		_ = sj.GetOrigin()
		_ = sj.GetJoinEvent()
		_ = sj.GetMembersOmitted()
		_ = sj.GetServersInRoom()
		_, _ = json.Marshal(sj)
		_ = gmsl.LineariseStateResponse(rv, &sj)
	}
	var skn fclient.RespSendKnock
	_ = json.Unmarshal(in, &skn)
	var mj fclient.RespMakeJoin
	if err := json.Unmarshal(in, &mj); err == nil {
		pe := mj.GetJoinEvent()
		_ = mj.GetRoomVersion()
		_, _ = gmsl.StateNeededForProtoEvent(&pe)
		_, _ = json.Marshal(mj)
	}
	var me fclient.RespMissingEvents
	if err := json.Unmarshal(in, &me); err == nil {
		_ = me.Events.UntrustedEvents(rv)
		_, _ = json.Marshal(me)
	}
	var mreq fclient.MissingEvents
	_ = json.Unmarshal(in, &mreq)
	var si fclient.RespStateIDs
	if err := json.Unmarshal(in, &si); err == nil {
		_ = si.GetStateEventIDs()
		_ = si.GetAuthEventIDs()
	}
	var ea fclient.RespEventAuth
	if err := json.Unmarshal(in, &ea); err == nil {
		_ = ea.AuthEvents.UntrustedEvents(rv)
	}
	var ud fclient.RespUserDevices
	if err := json.Unmarshal(in, &ud); err == nil {
		_, _ = json.Marshal(ud)
		if ud.MasterKey != nil {
			_ = ud.MasterKey.Equal(ud.SelfSigningKey)
		}
	}
	var pr fclient.RespPublicRooms
	if err := json.Unmarshal(in, &pr); err == nil {
		_, _ = json.Marshal(pr)
	}
	var dir fclient.RespDirectory
	_ = json.Unmarshal(in, &dir)
	var prof fclient.RespProfile
	_ = json.Unmarshal(in, &prof)
	var vsn fclient.Version
	_ = json.Unmarshal(in, &vsn)
	var snd fclient.RespSend
	_ = json.Unmarshal(in, &snd)
	if r, err := fclient.NewMSC2836EventRelationshipsRequest(bytes.NewReader(in)); err == nil && r != nil {
		_, _ = json.Marshal(r)
	}
	var er fclient.MSC2836EventRelationshipsResponse
	if err := json.Unmarshal(in, &er); err == nil {
		_ = er.Events.UntrustedEvents(rv)
		_ = er.AuthChain.UntrustedEvents(rv)
	}
	var rh fclient.RoomHierarchyResponse
	if err := json.Unmarshal(in, &rh); err == nil {
		_, _ = json.Marshal(rh)
	}
	var ri fclient.RespInvite
	if err := json.Unmarshal(in, &ri); err == nil {
		_, _ = json.Marshal(ri)
	}
	var ejs gmsl.EventJSONs
	if err := json.Unmarshal(in, &ejs); err == nil {
		_ = ejs.UntrustedEvents(rv)
		_ = ejs.TrustedEvents(rv, false)
	}
}

// ---- structure-aware JSON mutation ----

var fuzzDictKeys = []string{"event", "room_version", "pdus", "auth_chain", "state", "origin", "members_omitted", "servers_in_room", "events", "edus", "edu_type",
	"content", "devices", "device_id", "user_id", "stream_id", "keys", "signatures", "usage", "master_key", "self_signing_key", "algorithms", "invite_room_state",
	"prev_events", "auth_events", "depth", "sender", "type", "state_key", "room_id", "redacts", "unsigned", "hashes", "origin_server_ts", "_room_version", "_event_id",
	"chunk", "latest_events", "earliest_events", "limit", "min_depth", "pdu_ids", "auth_chain_ids", "Event", "Room_version", "ſtate", "server_name", "verify_keys",
	"old_verify_keys", "valid_until_ts", "device_display_name", "one_time_keys", "device_keys", "failures", "children", "children_state", "room", "next_batch"}

// refEntry is one entry of a prev_events / auth_events list as a hostile server may send it.
func (r *Rng) refEntry() interface{} {
	id := Pick(r, []string{"$a:b", "$e1:hs1", "$" + strings.Repeat("A", 43), "$" + r.id43(), "$", "", "x", "a:b", "$-_:b", "$////:b", "$ab:b", "$abc=:b"})
	hashes := Pick(r, []interface{}{map[string]interface{}{"sha256": "47DEQpj8HBSa+/TImW+5JCeuQeRkm5NMpJWZG3hSuFU"}, map[string]interface{}{"sha256": "!!"}, map[string]interface{}{"sha256": 5},
		map[string]interface{}{}, nil, 5, "x", []interface{}{}, map[string]interface{}{"sha256": nil}, map[string]interface{}{"md5": "x"}})
	switch r.Intn(16) {
	case 0, 1, 2, 3:
		return id
	case 4, 5, 6:
		return []interface{}{id, hashes}
	case 7:
		return []interface{}{}
	case 8:
		return []interface{}{Pick(r, []interface{}{5, nil, true, 1.5, map[string]interface{}{}, []interface{}{}, []interface{}{id}}), hashes}
	case 9:
		return []interface{}{id}
	case 10:
		return []interface{}{id, hashes, id}
	case 11:
		return Pick(r, []interface{}{5, nil, true, false, 1.5, map[string]interface{}{}, map[string]interface{}{"0": id}, -1})
	case 12:
		return []interface{}{[]interface{}{}}
	case 13:
		return []interface{}{[]interface{}{id, hashes}}
	case 14:
		return ""
	default:
		return []interface{}{"", hashes}
	}
}

// refList is a whole prev_events / auth_events value.
func (r *Rng) refList() interface{} {
	switch r.Intn(20) {
	case 0:
		return Pick(r, []interface{}{nil, map[string]interface{}{}, "x", "$a:b", 5, true, map[string]interface{}{"0": "$a:b"}})
	case 1:
		return []interface{}{}
	case 2: // a huge list
		e := r.refEntry()
		n := Pick(r, []int{300, 1500, 5000})
		out := make([]interface{}, n)
		for i := range out {
			out[i] = e
		}
		return out
	}
	n := 1 + r.Intn(4)
	out := make([]interface{}, n)
	for i := range out {
		out[i] = r.refEntry()
	}
	return out
}

// mutateJSONValue applies one structure-aware mutation somewhere inside v (objects and arrays are changed in place).
func (r *Rng) mutateJSONValue(v interface{}) interface{} {
	switch t := v.(type) {
	case map[string]interface{}:
		if len(t) > 0 && r.Chance(70) {
			keys := make([]string, 0, len(t))
			for k := range t {
				keys = append(keys, k)
			}
			sort.Strings(keys)
			k := Pick(r, keys)
			t[k] = r.mutateJSONValue(t[k])
			return t
		}
	case []interface{}:
		if len(t) > 0 && r.Chance(70) {
			i := r.Intn(len(t))
			t[i] = r.mutateJSONValue(t[i])
			return t
		}
	}
	return r.mutateHere(v)
}

func (r *Rng) mutateHere(v interface{}) interface{} {
	switch t := v.(type) {
	case map[string]interface{}:
		keys := make([]string, 0, len(t))
		for k := range t {
			keys = append(keys, k)
		}
		sort.Strings(keys)
		switch r.Intn(7) {
		case 0:
			if len(keys) > 0 {
				delete(t, Pick(r, keys))
			}
			return t
		case 1:
			t[Pick(r, fuzzDictKeys)] = r.weirdValue()
			return t
		case 2:
			if len(keys) > 0 {
				t[Pick(r, keys)] = nil
			}
			return t
		case 3:
			if len(keys) > 0 { // a case variant of a member name beside it (encoding/json folds names)
				k := Pick(r, keys)
				t[strings.ToUpper(k[:1])+k[1:]] = r.weirdValue()
			}
			return t
		case 4:
			if len(keys) > 0 { // retype one member
				k := Pick(r, keys)
				t[k] = r.retype(t[k])
			}
			return t
		case 5:
			return []interface{}{t}
		}
	case []interface{}:
		switch r.Intn(8) {
		case 0:
			return []interface{}{}
		case 1:
			return append(t, r.weirdValue())
		case 2:
			if len(t) > 0 {
				return append(t, t[r.Intn(len(t))])
			}
		case 3:
			if len(t) > 0 {
				return t[:r.Intn(len(t))]
			}
		case 4:
			if len(t) > 0 { // the same element many times
				e := t[r.Intn(len(t))]
				n := Pick(r, []int{100, 1000})
				out := make([]interface{}, n)
				for i := range out {
					out[i] = e
				}
				return out
			}
		case 5:
			return []interface{}{t}
		case 6:
			return r.refList()
		}
	case string:
		switch r.Intn(6) {
		case 0:
			return ""
		case 1:
			return Pick(r, weirdStrings)
		case 2:
			return t + t
		case 3:
			if len(t) > 0 {
				return t[:r.Intn(len(t))]
			}
		case 4:
			return string(r.Malform([]byte(t)))
		}
	}
	if r.Chance(50) {
		return r.retype(v)
	}
	return r.weirdValue()
}

// retype replaces a value by one of another JSON type built from it.
func (r *Rng) retype(v interface{}) interface{} {
	switch r.Intn(8) {
	case 0:
		return nil
	case 1:
		return []interface{}{v}
	case 2:
		return map[string]interface{}{"a": v}
	case 3:
		b, _ := json.Marshal(v)
		return string(b)
	case 4:
		return Pick(r, []interface{}{0, -1, 1.5, int64(9007199254740992), int64(-9223372036854775808), json.RawMessage("1e400"), json.RawMessage("18446744073709551616")})
	case 5:
		return r.Bool()
	case 6:
		return []interface{}{}
	default:
		return map[string]interface{}{}
	}
}

// mutatedBody returns n structure-aware mutations of a JSON text, as text.
func (r *Rng) mutatedBody(seed []byte, n int) []byte {
	var v interface{}
	d := json.NewDecoder(bytes.NewReader(seed))
	d.UseNumber()
	if err := d.Decode(&v); err != nil {
		return r.Malform(seed)
	}
	for i := 0; i < n; i++ {
		v = r.mutateJSONValue(v)
	}
	b, err := json.Marshal(v)
	if err != nil {
		return r.Malform(seed)
	}
	return b
}

// ---- seeds: valid examples of every body kind (after the repository's *_test.go files) ----

const seedEventV1 = `{"auth_events":[["$oXL79cT7fFxR7dPH:localhost",{"sha256":"abjkiDSg1RkuZrbj2jZoGMlQaaj1Ue3Jhi7I7NlKfXY"}]],"content":{"body":"Test Message"},"depth":3,"event_id":"$yvN1b43rlmcOs5fY:localhost","hashes":{"sha256":"Oh1mwI1jEqZ3tgJ+V1Dmu5nOEGpCE4RFUqyJv2gQXKs"},"origin":"localhost","origin_server_ts":1510854416361,"prev_events":[["$FqI6TVvWpcbcnJ97:localhost",{"sha256":"upCsBqUhNUgT2/+zkzg8TbqdQpWWKQnZpGJc6KcbUC4"}]],"prev_state":[],"room_id":"!roomid:localhost","sender":"@userid:localhost","signatures":{"localhost":{"ed25519:auto":"JaEmxP8Vzs7UDrQFhCKm/Ub2mzCTBTrtYTDlM2JpTgEDPBGeTsPCDCQiuF8Cd9oqgSQiAI2ZaEWrCIplLtD2Dg"}},"type":"m.room.message"}`
const seedEventV4 = `{"auth_events":["$x4MKEPRSF6OGlo0qpnsP3BfSmYX5HhVlykOsQH3ECyg","$BcEcbZnlFLB5rxSNSZNBn6fO3jU_TKAJ79wfKyCQLiU"],"content":{"body":"Test Message"},"depth":5,"hashes":{"sha256":"1bCa8K8ubyNzQUtvyJUfR0GFpbf9GbdCp4GMmb2L1pI"},"origin":"localhost","origin_server_ts":1510854416361,"prev_events":["$4F2GuzFXRZ_ggaHm5W0G8X9pu3Za2dURBcAnsHVTI6M"],"room_id":"!roomid:localhost","sender":"@userid:localhost","signatures":{"localhost":{"ed25519:auto":"1dWRA4IWtWnGjXRAIYMKbjd2qAnBLYtMAt5UwKuhgQMOLpxvNxFCiH9K5hbbD2eSrNSYSGBGY8E8XtlbNTtoBA"}},"type":"m.room.message","unsigned":{"age_ts":1510854416361}}`

var fuzzSeeds = map[string][]string{
	"makejoin": {
		`{"room_version":"1","event":{"type":"m.room.member","sender":"@u:me","room_id":"!r:me","state_key":"@u:me","content":{"membership":"join"},"depth":5,"origin":"hs1","origin_server_ts":1,"prev_events":[["$p:hs1",{"sha256":"47DEQpj8HBSa+/TImW+5JCeuQeRkm5NMpJWZG3hSuFU"}]],"auth_events":[["$c:hs1",{"sha256":"47DEQpj8HBSa+/TImW+5JCeuQeRkm5NMpJWZG3hSuFU"}],["$pl:hs1",{"sha256":"47DEQpj8HBSa+/TImW+5JCeuQeRkm5NMpJWZG3hSuFU"}]]}}`,
		`{"room_version":"10","event":{"type":"m.room.member","sender":"@u:me","room_id":"!r:me","state_key":"@u:me","content":{"membership":"join","join_authorised_via_users_server":"@a:hs1"},"depth":5,"origin_server_ts":1,"prev_events":["$4F2GuzFXRZ_ggaHm5W0G8X9pu3Za2dURBcAnsHVTI6M"],"auth_events":["$x4MKEPRSF6OGlo0qpnsP3BfSmYX5HhVlykOsQH3ECyg","$BcEcbZnlFLB5rxSNSZNBn6fO3jU_TKAJ79wfKyCQLiU"]}}`,
		`{"event":{"type":"m.room.member","sender":"@u:me","room_id":"!r:me","state_key":"@u:me","content":{"membership":"leave"},"prev_events":["$a:b"],"auth_events":["$c:d"],"signatures":{"hs1":{"ed25519:1":"AAAA"}},"unsigned":{"a":1},"redacts":"$x:y"}}`,
		`{"room_version":"12","invite_room_state":[{"type":"m.room.name","sender":"@a:b","state_key":"","content":{"name":"x"}}],"event":{"type":"m.room.member","sender":"@a:hs1","room_id":"!AAAAAAAAAAAAAAAAAAAAAAAAAAAAAAAAAAAAAAAAAAA","state_key":"@u:me","content":{"membership":"invite"},"depth":2,"prev_events":["$4F2GuzFXRZ_ggaHm5W0G8X9pu3Za2dURBcAnsHVTI6M"],"auth_events":[]}}`,
	},
	"fedtypes": {
		`{"pdus":[` + seedEventV4 + `],"auth_chain":[` + seedEventV4 + `]}`,
		`{"state":[` + seedEventV1 + `],"auth_chain":[` + seedEventV1 + `],"origin":"o1","members_omitted":true,"servers_in_room":["s1","s2"],"event":` + seedEventV4 + `}`,
		`{"events":[` + seedEventV4 + `,` + seedEventV1 + `]}`,
		`{"pdu_ids":["$a:b","$c:d"],"auth_chain_ids":["$e:f"]}`,
		`{"user_id":"@a:b","stream_id":5,"devices":[{"device_id":"D","device_display_name":"n","keys":{"user_id":"@a:b","device_id":"D","algorithms":["m.olm.v1"],"keys":{"curve25519:D":"3C5BFWi2Y8MaVvjM8M22DBmh24PmgR0nPvJOIArzgyI"},"signatures":{"@a:b":{"ed25519:D":"dSO80A01XiigH3uBiDVx/EjzaoycHcjq9lfQX0uWsqxl2giMIiSPR8a4d291W1ihKJL/a+myXS367WT6NAIcBA"}}}}],"master_key":{"user_id":"@a:b","usage":["master"],"keys":{"ed25519:k":"3C5BFWi2Y8MaVvjM8M22DBmh24PmgR0nPvJOIArzgyI"}},"self_signing_key":{"user_id":"@a:b","usage":["self_signing"],"keys":{"ed25519:k":"3C5BFWi2Y8MaVvjM8M22DBmh24PmgR0nPvJOIArzgyI"},"signatures":{"@a:b":{"ed25519:k":"AAAA"}}}}`,
		`{"chunk":[{"room_id":"!r:b","name":"n","num_joined_members":5,"world_readable":true,"guest_can_join":false,"aliases":["#a:b"]}],"next_batch":"n","total_room_count_estimate":1}`,
		`{"limit":10,"min_depth":0,"earliest_events":["$a:b"],"latest_events":["$c:d"]}`,
		`{"event_id":"$a:b","max_depth":3,"max_breadth":10,"limit":100,"depth_first":false,"recent_first":true,"include_parent":true,"include_children":true,"direction":"down","batch":"b"}`,
		`{"room":{"room_id":"!r:b","num_joined_members":1,"children_state":[{"type":"m.space.child","state_key":"!c:b","content":{"via":["b"]},"sender":"@a:b","origin_server_ts":1}],"allowed_room_ids":["!x:y"]},"children":[],"inaccessible_children":["!z:b"]}`,
		`[200,{"event":` + seedEventV4 + `}]`,
		`{"renewal_interval":5,"state":[` + seedEventV4 + `],"auth_chain":[],"room_version":"6","latest_event":` + seedEventV4 + `}`,
		`{"room_id":"!r:b","servers":["a","b"]}`,
		`{"server":{"name":"x","version":"1"}}`,
		`{"pdus":{"$a:b":{"error":"x"},"$c:d":{}}}`,
	},
	"headered": {
		`{"_room_version":"1","_event_id":"$yvN1b43rlmcOs5fY:localhost",` + seedEventV1[1:],
		`{"_room_version":"4",` + seedEventV4[1:],
		`{"_room_version":"10","_event_id":"$4F2GuzFXRZ_ggaHm5W0G8X9pu3Za2dURBcAnsHVTI6M",` + seedEventV4[1:],
	},
	"text": {
		`"localhost/ed25519:auto"`, `localhost/ed25519:auto`, `{"localhost/ed25519:auto":1234}`, `"0123456789abcdef"`, `"AAAA"`, `"47DEQpj8HBSa+/TImW+5JCeuQeRkm5NMpJWZG3hSuFU"`,
		`"47DEQpj8HBSa-_TImW-5JCeuQeRkm5NMpJWZG3hSuFU="`, `1510854416361`, `{"type":"m.room.name","sender":"@a:b","state_key":"","content":{"name":"x"}}`,
		`{"users":{"@a:b":100},"users_default":0,"events":{"m.room.name":50},"events_default":0,"state_default":50,"ban":50,"kick":50,"redact":50,"invite":0,"notifications":{"room":50}}`,
		`{"membership":"invite","third_party_invite":{"display_name":"x","signed":{"mxid":"@a:b","token":"t","signatures":{"id":{"ed25519:0":"AAAA"}}}},"mxid_mapping":{"user_room_key":"AAAA","user_id":"@a:b","signatures":{"b":{"ed25519:1":"AAAA"}}}}`,
		`{"display_name":"x","key_validity_url":"https://x","public_key":"AAAA","public_keys":[{"public_key":"AAAA","key_validity_url":"https://x"}]}`,
		`{"server_name":"a","valid_until_ts":1,"verify_keys":{"ed25519:1":{"key":"Noi6WqcDj0QmPxCNQqgezwTlBKrfqehY1u2FyWP9uYw"}},"old_verify_keys":{"ed25519:0":{"key":"Noi6WqcDj0QmPxCNQqgezwTlBKrfqehY1u2FyWP9uYw","expired_ts":1}},"signatures":{"a":{"ed25519:1":"AAAA"}}}`,
	},
	"xsign": {
		`{"user_id":"@a:b","usage":["master"],"keys":{"ed25519:k":"3C5BFWi2Y8MaVvjM8M22DBmh24PmgR0nPvJOIArzgyI"},"signatures":{"@a:b":{"ed25519:k":"AAAA"}}}`,
		`{"master_key":{"user_id":"@a:b","usage":["master"],"keys":{"ed25519:k":"AAAA"}},"self_signing_key":{"user_id":"@a:b","usage":["self_signing","master"],"keys":{"ed25519:k":"AAAA"}},"user_signing_key":{"user_id":"@a:b","usage":["user_signing"],"keys":{}}}`,
		`{"user_id":"@a:b","device_id":"D","algorithms":["m.olm.v1"],"keys":{"curve25519:D":"AAAA"},"signatures":{"@a:b":{"ed25519:D":"AAAA"}},"unsigned":{"device_display_name":"x"}}`,
		`{"@a:b":{"D":{"user_id":"@a:b","device_id":"D","algorithms":[],"keys":{},"signatures":{}},"k":{"user_id":"@a:b","usage":["master"],"keys":{"ed25519:k":"AAAA"}}}}`,
		`{"device_keys":{"@a:b":{"D":{"user_id":"@a:b","device_id":"D","algorithms":[],"keys":{},"signatures":{}}}},"master_keys":{"@a:b":{"user_id":"@a:b","usage":["master"],"keys":{"ed25519:k":"AAAA"}}},"self_signing_keys":{},"failures":{"x":{}}}`,
		`{"one_time_keys":{"@a:b":{"D":{"signed_curve25519:AAAA":{"key":"x","signatures":{}}}}}}`,
	},
	"invite": {
		`{"room_version":"1","invite_room_state":[{"type":"m.room.name","sender":"@a:b","state_key":"","content":{"name":"x"}}],"event":` + seedEventV1 + `}`,
		`{"room_version":"4","invite_room_state":[],"event":` + seedEventV4 + `}`,
		`{"room_version":"10","event":{"type":"m.room.member","sender":"@a:hs1","room_id":"!r:hs1","state_key":"@u:me","content":{"membership":"invite"},"depth":2,"prev_events":[],"auth_events":[]}}`,
		`[200,{"event":` + seedEventV4 + `}]`,
		`{"event":` + seedEventV4 + `}`,
	},
	"txn": {
		`{"origin":"hs1","origin_server_ts":1510854416361,"pdus":[` + seedEventV4 + `],"edus":[{"edu_type":"m.typing","origin":"hs1","destination":"me","content":{"room_id":"!r:b","user_id":"@a:b","typing":true}}]}`,
		`{"origin":"hs1","origin_server_ts":1,"pdus":[` + seedEventV1 + `,` + seedEventV1 + `]}`,
		`{"edu_type":"m.device_list_update","origin":"hs1","content":{"user_id":"@a:b","device_id":"D","stream_id":5,"prev_id":[4],"deleted":false,"keys":{}}}`,
		`{"pdus":{"$a:b":{"error":"x"}}}`,
	},
}

var fuzzHeaders = []string{`X-Matrix origin="a",key="ed25519:1",sig="x",destination="x"`, `X-Matrix origin=a,key=,sig=`, `X-Matrix `, `X-Matrix`, ``, ` `, `X-Matrix ,,,`, `X-Matrix =`, `X-Matrix origin="`, `X-Matrix origin=""""`,
	`Bearer x`, "X-Matrix origin=\"a\",key=\"ed25519:1\",sig=\"" + strings.Repeat("A", 86) + "\"", `X-Matrix origin="[::1]:80",key="k",sig="s",destination="x"`, `x-matrix ORIGIN="a",KEY="ed25519:1",SIG="AAAA"`,
	`X-Matrix origin="a",origin="b",key="ed25519:1",sig="AAAA"`, `X-Matrix origin="a", key="ed25519:1", sig="AAAA"`, "X-Matrix origin=\"a\",key=\"ed25519:1\",sig=\"AA\\\"AA\"", `X-Matrix origin=a;key=b;sig=c`, `X-Matrix` + "\t" + `origin="a"`,
	`X-Matrix origin="a",key="ed25519:1",sig="AAAA",destination="y"`, `Basic QWxhZGRpbjpvcGVuIHNlc2FtZQ==`, `X-Matrix origin="é",key="ed25519:1",sig="AAAA"`}

var fuzzContentTypes = []string{"application/json", "", "application/json; charset=utf-8", "application/json;", "application/json; charset", "text/plain", "application/json; charset=\"", ";", "/", "application/json,application/json",
	"APPLICATION/JSON", "application/jsonx", "application/json; a=b; a=c", " application/json", "application/json\x00", "multipart/form-data; boundary=", "a/b/c", "application/*", "\xff"}

// ---- generators ----

var weirdStrings = []string{"", "!", "!a", "!:", "!a:", "!:b", "!a:b c", "!abc", "@", "@:", "@a", "@a:", "@:b", "$", "$a", "$:", "a:b", ":", "::", "@a:b:c",
	"!" + strings.Repeat("A", 43), "!" + strings.Repeat("A", 42), "!" + strings.Repeat("A", 44), "$" + strings.Repeat("A", 43), "@a:[::1]", "@a:[::1]:80", "@a:1.2.3.4", "@a:b:99999",
	strings.Repeat("x", 256), "@" + strings.Repeat("x", 255) + ":b", "\x00", "\xff\xfe", "é", "@é:b", "!r:hs1", "@creator:hs1", "m.room.member", "join", "ed25519:1", "org.matrix.msc4014"}

func (r *Rng) weirdValue() interface{} {
	switch r.Intn(14) {
	case 0:
		return nil
	case 1:
		return r.Bool()
	case 2:
		return Pick(r, []interface{}{0, -1, 1, 9007199254740991, int64(9007199254740992), int64(-9007199254740992), int64(9223372036854775807), int64(-9223372036854775808), 65536, 256})
	case 3:
		return json.RawMessage(Pick(r, []string{"1.5", "1e3", "-0", "1e400", "18446744073709551616", "0.0"}))
	case 4, 5, 6:
		return Pick(r, weirdStrings)
	case 7:
		return []interface{}{}
	case 8:
		return []interface{}{Pick(r, weirdStrings), 1, nil}
	case 9:
		return map[string]interface{}{}
	case 10:
		return map[string]interface{}{Pick(r, weirdStrings): r.weirdValue2()}
	case 11:
		return []interface{}{[]interface{}{Pick(r, weirdStrings), map[string]interface{}{"sha256": Pick(r, weirdStrings)}}}
	case 12:
		return map[string]interface{}{"signed": map[string]interface{}{"mxid": Pick(r, weirdStrings), "token": Pick(r, weirdStrings), "signatures": map[string]interface{}{"a": map[string]interface{}{"ed25519:1": Pick(r, weirdStrings)}}}}
	default:
		return strings.Repeat("y", r.Intn(70000))
	}
}
func (r *Rng) weirdValue2() interface{} {
	if r.Chance(50) {
		return Pick(r, weirdStrings)
	}
	return Pick(r, []interface{}{nil, 1, true, []interface{}{}, map[string]interface{}{}})
}

var fuzzTopKeys = []string{"type", "sender", "room_id", "state_key", "content", "redacts", "depth", "unsigned", "origin_server_ts", "event_id", "prev_events",
	"auth_events", "hashes", "signatures", "origin", "membership", "prev_state", "msc4354_sticky", "sticky", "_room_version", "_event_id", "outlier", "age_ts", "destinations", "Type", "ſender"}

var fuzzContentKeys = []string{"membership", "third_party_invite", "join_authorised_via_users_server", "mxid_mapping", "creator", "room_version", "m.federate",
	"additional_creators", "predecessor", "join_rule", "allow", "ban", "kick", "invite", "redact", "users", "users_default", "events", "events_default", "state_default",
	"notifications", "public_keys", "public_key", "key_validity_url", "display_name", "history_visibility", "aliases", "redacts", "duration_ms"}

// mutateEvent applies 1-3 structure-aware mutations to an event object.
func (r *Rng) mutateEvent(m map[string]interface{}) {
	n := 1 + r.Intn(3)
	for i := 0; i < n; i++ {
		switch r.Intn(6) {
		case 5:
			// a special event type, with the state key toggled
			m["type"] = Pick(r, []string{"m.room.create", "m.room.member", "m.room.power_levels", "m.room.join_rules", "m.room.third_party_invite", "m.room.aliases", "m.room.redaction"})
			switch r.Intn(3) {
			case 0:
				delete(m, "state_key")
			case 1:
				m["state_key"] = Pick(r, []string{"", "x", "@a:b", "@creator:hs1"})
			}
			if r.Chance(40) {
				delete(m, Pick(r, []string{"room_id", "content", "sender", "prev_events", "auth_events"}))
			}
		case 0, 1:
			m[Pick(r, fuzzTopKeys)] = r.weirdValue()
		case 2:
			delete(m, Pick(r, fuzzTopKeys))
		case 3, 4:
			c, _ := m["content"].(map[string]interface{})
			if c == nil {
				c = map[string]interface{}{}
			}
			c[Pick(r, fuzzContentKeys)] = r.weirdValue()
			m["content"] = c
		}
	}
}

// withHash adds the content hash the receiving server will compute (so that the event is accepted unredacted).
func withHash(m map[string]interface{}) {
	c := map[string]interface{}{}
	for k, v := range m {
		if k != "unsigned" && k != "signatures" && k != "hashes" {
			c[k] = v
		}
	}
	b, err := json.Marshal(c)
	if err != nil {
		return
	}
	cj, err := gmsl.CanonicalJSON(b)
	if err != nil {
		return
	}
	sum := sha256.Sum256(cj)
	m["hashes"] = map[string]interface{}{"sha256": base64.RawStdEncoding.EncodeToString(sum[:])}
}

func evMap(e *Ev) map[string]interface{} {
	var m map[string]interface{}
	d := json.NewDecoder(strings.NewReader(string(e.JSON)))
	d.UseNumber()
	_ = d.Decode(&m)
	return m
}

func genFuzz(o *Out, tier string, r *Rng) {
	n := 400
	if tier == "thorough" {
		n = 12000
	}
	for i := 0; i < n; i++ {
		ver := Pick(r, allVersions)
		h := GenHistory(r, ver, 3+r.Intn(8))
		if h == nil {
			continue
		}
		// events: one mutated, the rest of the room as context (some mutated too)
		target := Pick(r, h.All)
		m := evMap(target)
		r.mutateEvent(m)
		if r.Chance(60) {
			withHash(m)
		}
		tj, _ := json.Marshal(m)
		args := []string{ver, hx(tj)}
		for _, e := range h.All {
			if e == target {
				continue
			}
			if r.Chance(15) {
				mm := evMap(e)
				r.mutateEvent(mm)
				if r.Chance(60) {
					withHash(mm)
				}
				b, _ := json.Marshal(mm)
				args = append(args, hx(b))
			} else {
				args = append(args, hx(e.JSON))
			}
		}
		o.Do("event", args...)
		o.Do("trusted", ver, hx(tj))
		// directed: a `signatures` member of every JSON kind on an otherwise acceptable event (Sign() must cope)
		if r.Chance(30) {
			ms := evMap(target)
			ms["signatures"] = Pick(r, []interface{}{5, "x", true, []interface{}{}, map[string]interface{}{"a": 1}, map[string]interface{}{"a": "x"},
				map[string]interface{}{"a": map[string]interface{}{"ed25519:1": 5}}, map[string]interface{}{"a": map[string]interface{}{"ed25519:1": "!!"}},
				map[string]interface{}{"a": map[string]interface{}{"ed25519:1": map[string]interface{}{}}}, map[string]interface{}{"a": []interface{}{}},
				nil, map[string]interface{}{"a": nil}, map[string]interface{}{"a": map[string]interface{}{"ed25519:1": nil}}, map[string]interface{}{}})
			if r.Chance(70) {
				withHash(ms)
			}
			sj, _ := json.Marshal(ms)
			o.Do("event", ver, hx(sj))
			o.Count("event.signatures-shape")
		}
		// directed: TRUSTED JSON of an event that carries an event_id member (hashed-ID formats compute the ID; a stored
		// copy of the event may well carry one), in particular the create event of a room whose ID derives from it
		if r.Chance(30) {
			src := target
			if r.Chance(60) {
				src = h.All[0]
			}
			ms := evMap(src)
			ms["event_id"] = Pick(r, []string{"y", "", "$", "$x", "$" + strings.Repeat("A", 43), "$x:y", "!", "é"})
			if r.Chance(30) {
				delete(ms, "room_id")
			}
			ej, _ := json.Marshal(ms)
			o.Do("trusted", ver, hx(ej))
			o.Count("trusted.with-event_id")
		}
		// directed: a room ID of the OTHER family - a domain-less `!<43 characters>` ID in the room versions whose IDs carry a
		// server name, a `!local:server` ID where IDs are hashes - on the create event (whose auth check asks the room ID for
		// its domain) and on the mutated event (seeded change C18-r6m1)
		if r.Chance(35) {
			src := h.All[0]
			if r.Chance(30) {
				src = target
			}
			ms := evMap(src)
			ms["room_id"] = Pick(r, []string{"!" + r.id43(), "!" + strings.Repeat("A", 43), "!room:hs1", "!" + r.id43() + ":hs1", "!" + strings.Repeat("b", 42), "!" + strings.Repeat("b", 44)})
			if r.Chance(50) {
				ms["prev_events"] = []interface{}{}
				ms["auth_events"] = []interface{}{}
			}
			if r.Chance(70) {
				withHash(ms)
			}
			rj, _ := json.Marshal(ms)
			o.Do("event", ver, hx(rj))
			o.Do("trusted", ver, hx(rj))
			o.Count("event.room-id-of-the-other-family")
		}
		// raw byte mutations of the same text
		o.Do("event", ver, hx(r.Malform(tj)))
		o.Do("trusted", ver, hx(r.Malform(tj)))
		// documents
		doc := r.RenderText(r.GenValue(3, true), r.RandStyle())
		o.Do("json", ver, hx(doc))
		o.Do("json", ver, hx(r.Malform(doc)))
		sig := map[string]interface{}{"a": r.weirdValue(), "signatures": r.weirdValue(), "unsigned": r.weirdValue()}
		sb, _ := json.Marshal(sig)
		o.Do("json", ver, hx(sb))
		// key responses
		keys := map[string]interface{}{"server_name": Pick(r, weirdStrings), "valid_until_ts": r.weirdValue(),
			"verify_keys":     map[string]interface{}{"ed25519:1": map[string]interface{}{"key": Pick(r, []string{"AAAA", "", "!", "Noi6WqcDj0QmPxCNQqgezwTlBKrfqehY1u2FyWP9uYw"})}},
			"old_verify_keys": map[string]interface{}{"ed25519:0": map[string]interface{}{"key": Pick(r, []string{"AAAA", "Noi6WqcDj0QmPxCNQqgezwTlBKrfqehY1u2FyWP9uYw"}), "expired_ts": r.weirdValue()}},
			"signatures":      r.weirdValue()}
		if r.Chance(50) {
			keys[Pick(r, []string{"verify_keys", "old_verify_keys", "server_name"})] = r.weirdValue()
		}
		kb, _ := json.Marshal(keys)
		o.Do("keys", ver, hx(kb))
		// headers
		hdr := Pick(r, []string{`X-Matrix origin="a",key="ed25519:1",sig="x",destination="x"`, `X-Matrix origin=a,key=,sig=`, `X-Matrix `, `X-Matrix`, ``, ` `, `X-Matrix ,,,`, `X-Matrix =`, `X-Matrix origin="`, `X-Matrix origin=""""`,
			`Bearer x`, "X-Matrix origin=\"a\",key=\"ed25519:1\",sig=\"" + strings.Repeat("A", 86) + "\"", `X-Matrix origin="[::1]:80",key="k",sig="s",destination="x"`})
		if r.Chance(40) {
			hdr = string(r.Malform([]byte(hdr)))
		}
		o.Do("header", ver, hx([]byte(hdr)))
		// identifiers
		id := Pick(r, weirdStrings)
		if r.Chance(30) {
			id = string(r.Malform([]byte(id)))
		}
		o.Do("ident", ver, hx([]byte(id)))
		// federation responses
		resp := map[string]interface{}{"pdus": []json.RawMessage{tj}, "auth_chain": []json.RawMessage{target.JSON}, "state": []json.RawMessage{tj},
			"event": json.RawMessage(tj), "origin": Pick(r, weirdStrings), "room_version": ver, "members_omitted": r.weirdValue()}
		if r.Chance(50) {
			resp[Pick(r, []string{"pdus", "auth_chain", "state", "event", "devices", "user_id", "stream_id", "edus"})] = r.weirdValue()
		}
		rb, _ := json.Marshal(resp)
		o.Do("resp", ver, hx(rb))
		o.Do("resp", ver, hx(r.Malform(rb)))
		// ---- second audit round: entry points the stream did not reach ----
		// (P2) a create / aliases event from a sender that is no user ID, the rest of the room as context: the pipeline asks
		// `Allowed` with the querier that answers (nil, nil) for such a sender
		if r.Chance(30) {
			src := target
			if r.Chance(50) {
				src = h.All[0]
			}
			ms := evMap(src)
			ms["sender"] = Pick(r, []string{"", "Zm9v", "notauser", "@nodomain", "abc:def", strings.Repeat("A", 43)})
			if r.Chance(50) {
				ms["type"] = "m.room.aliases"
				ms["state_key"] = Pick(r, []string{"hs1", "", "Zm9v"})
			} else {
				ms["type"] = "m.room.create"
				ms["state_key"] = ""
				ms["prev_events"] = []interface{}{}
			}
			if r.Chance(70) {
				withHash(ms)
			}
			sj, _ := json.Marshal(ms)
			nargs := []string{ver, hx(sj)}
			for _, e := range h.All {
				nargs = append(nargs, hx(e.JSON))
			}
			o.Do("event", nargs...)
			o.Count("event.sender-not-a-user-id")
		}
		// (P1) proto events chosen by the remote server: structure-aware reference lists, every room version (1 and 2 convert
		// the references)
		{
			var body map[string]interface{}
			_ = json.Unmarshal([]byte(Pick(r, fuzzSeeds["makejoin"])), &body)
			ev, _ := body["event"].(map[string]interface{})
			if ev == nil {
				ev = map[string]interface{}{}
			}
			if r.Chance(85) {
				ev[Pick(r, []string{"prev_events", "auth_events"})] = r.refList()
			}
			if r.Chance(40) {
				ev[Pick(r, []string{"prev_events", "auth_events"})] = r.refList()
			}
			if r.Chance(30) {
				ev[Pick(r, []string{"depth", "signatures", "unsigned", "content", "state_key", "redacts", "room_id", "sender", "type", "origin"})] = r.weirdValue()
			}
			body["event"] = ev
			if r.Chance(30) {
				body["room_version"] = Pick(r, []interface{}{ver, "1", "2", "", nil, 5, "99", "org.matrix.msc4014"})
			}
			bb, _ := json.Marshal(body)
			if r.Chance(25) {
				bb = r.mutatedBody(bb, 1+r.Intn(3))
			}
			for _, bv := range []string{"1", "2", ver} {
				o.Do("makejoin", bv, hx(bb))
			}
			if r.Chance(30) {
				o.Do("makejoin", Pick(r, []string{"1", "2"}), hx(r.Malform(bb)))
			}
			// the conversion alone, against its model
			refText := func() string {
				if r.Chance(8) {
					return "-"
				}
				if r.Chance(45) {
					// a list that converts: IDs with the sigil, as strings or pairs, beside entries the conversion skips
					n := r.Intn(4)
					l := make([]interface{}, 0, n)
					for i := 0; i < n; i++ {
						id := Pick(r, []string{"$a:b", "$e1:hs1", "$" + r.id43(), "$", "$-_:b", "$////:b", "$abc=:b", "$abcd"})
						switch r.Intn(6) {
						case 0, 1, 2:
							l = append(l, id)
						case 3, 4:
							l = append(l, []interface{}{id, Pick(r, []interface{}{map[string]interface{}{"sha256": "x"}, 5, nil})})
						default:
							l = append(l, Pick(r, []interface{}{5, nil, true, map[string]interface{}{}}))
						}
					}
					b, _ := json.Marshal(l)
					return hx(b)
				}
				l := r.refList()
				if arr, ok := l.([]interface{}); ok && len(arr) > 200 {
					l = arr[:Pick(r, []int{1, 50, 200})]
				}
				b, _ := json.Marshal(l)
				return hx(b)
			}
			bv := ver
			if r.Chance(60) {
				bv = Pick(r, []string{"1", "2"})
			}
			o.Do("buildrefs", bv, refText(), refText())
		}
		// (P4) every other body kind: structure-aware mutations of valid examples, raw byte mutations
		for _, kind := range []string{"fedtypes", "headered", "text", "xsign", "invite", "txn"} {
			seed := []byte(Pick(r, fuzzSeeds[kind]))
			var body []byte
			switch r.Intn(10) {
			case 0:
				body = seed
			case 1, 2:
				body = r.Malform(seed)
			case 3:
				body = r.Malform(r.mutatedBody(seed, 1+r.Intn(2)))
			default:
				body = r.mutatedBody(seed, 1+r.Intn(3))
			}
			if kind == "fedtypes" && r.Chance(25) {
				// the generated (possibly mutated) event inside a response of each shape
				body, _ = json.Marshal(map[string]interface{}{"pdus": []json.RawMessage{tj}, "auth_chain": []json.RawMessage{target.JSON}, "state": []json.RawMessage{tj}, "events": []json.RawMessage{tj},
					"event": json.RawMessage(tj), "latest_event": json.RawMessage(tj), "room_version": ver, Pick(r, fuzzDictKeys): r.weirdValue()})
			}
			if kind == "headered" && r.Chance(60) {
				// a generated (often mutated) event with the headers the library itself would write
				mh := evMap(target)
				if r.Chance(60) {
					r.mutateEvent(mh)
				}
				plain, _ := json.Marshal(mh)
				mh["_room_version"] = ver
				mh["_event_id"] = ownEventID(ver, plain)
				if r.Chance(15) {
					mh["_room_version"] = Pick(r, []interface{}{"", nil, 5, "99", Pick(r, allVersions)})
				}
				if r.Chance(15) {
					mh["_event_id"] = Pick(r, []interface{}{target.ID, "", "$", "$x", nil, 5, "!", "$" + strings.Repeat("A", 43)})
				}
				body, _ = json.Marshal(mh)
			}
			if kind == "invite" && r.Chance(40) {
				body, _ = json.Marshal(map[string]interface{}{"room_version": Pick(r, []interface{}{ver, ver, "", nil, 5, "99"}), "event": json.RawMessage(tj),
					"invite_room_state": Pick(r, []interface{}{nil, []interface{}{}, []interface{}{map[string]interface{}{"type": "m.room.name", "sender": "@a:b", "state_key": "", "content": map[string]interface{}{}}}, r.weirdValue()})})
			}
			if kind == "txn" && r.Chance(40) {
				body, _ = json.Marshal(map[string]interface{}{"origin": Pick(r, weirdStrings), "origin_server_ts": r.weirdValue(), "pdus": []json.RawMessage{tj, target.JSON},
					"edus": Pick(r, []interface{}{nil, []interface{}{}, []interface{}{map[string]interface{}{"edu_type": "m.typing", "content": r.weirdValue()}}, r.weirdValue()})})
			}
			o.Do(kind, ver, hx(body))
		}
		// VerifyHTTPRequest: two Authorization headers, odd Content-Types, methods, URIs and bodies
		{
			h1 := Pick(r, fuzzHeaders)
			h2 := ""
			if r.Chance(50) {
				h2 = Pick(r, fuzzHeaders)
			}
			if r.Chance(25) {
				// the same origin in another letter case / another key on a second header line: a different origin for the
				// receiver, which must answer with an error, not index a map it never made (seeded change C18-r8m1)
				h1 = Pick(r, []string{`X-Matrix origin="example.org",key="ed25519:1",sig="AAAA",destination="x"`, `X-Matrix origin="a",key="ed25519:1",sig="x",destination="x"`, `X-Matrix origin="hs1:8448",key="ed25519:a",sig="AAAA"`})
				h2 = strings.NewReplacer(`origin="example.org"`, `origin="Example.ORG"`, `origin="a"`, `origin="A"`, `origin="hs1:8448"`, `origin="HS1:8448"`, `key="ed25519:1"`, `key="ed25519:2"`).Replace(h1)
				if r.Bool() {
					h1, h2 = h2, h1
				}
			}
			if r.Chance(30) {
				h1 = string(r.Malform([]byte(h1)))
			}
			ct := Pick(r, fuzzContentTypes)
			if r.Chance(15) {
				ct = string(r.Malform([]byte(ct)))
			}
			method := Pick(r, []string{"PUT", "GET", "POST", "DELETE", "", "put", "P T"})
			uri := Pick(r, []string{"/_matrix/federation/v1/send/1", "/", "", "/a?b=c", "/%zz", "/a b", "//x", "/é", "/_matrix/federation/v2/invite/!r:b/$e:b?x=" + strings.Repeat("y", 300)})
			body := Pick(r, [][]byte{[]byte("{}"), nil, []byte("[]"), []byte("null"), []byte(`{"a":1}`), tj, []byte("{"), []byte(`"x"`), []byte(`{"a":1.5}`), []byte("\xff"), doc})
			o.Do("httpreq", ver, hx([]byte(h1)), hx([]byte(h2)), hx([]byte(ct)), hx([]byte(method)), hx([]byte(uri)), hx(body))
		}
		// tokens
		tok := Pick(r, []string{"", "AAAA", "!!!!", "MDAxY2xvY2F0aW9uIHMKMDAxM2lkZW50aWZpZXIgQHU6cwowMDEwY2lkIGdlbiA9IDEK", strings.Repeat("A", 500)})
		o.Do("token", ver, hx(r.Malform([]byte(tok))))
		if i < 3 {
			o.Sample(fmt.Sprintf("%s %s", ver, string(tj)))
		}
	}
}
