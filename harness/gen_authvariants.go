package main

// Spelling variants of the member names of the contents the authorisation rules READ: m.room.create, m.room.power_levels,
// m.room.join_rules and m.room.third_party_invite (C07, defect X3).  The Matrix rules name `join_rule`, `users`,
// `state_default`, `m.federate`, ...: a member called `Join_rule`, `USERS`, `ſtate_default` or `Kick` (U+212A) is some
// other, unrelated member, the redaction algorithm drops it, and every other implementation ignores it.  encoding/json
// would match such a member with the struct field of the folded name (the last match wins; maps merge).
//
// A variant is written ALONE (the exact member renamed, or a variant of an absent member added) or BESIDE the exact member
// (before or after it, with another value).  The event JSON is NOT re-canonicalised afterwards: a content received from
// another server keeps its member order (eventFields.Content is decoded before the constructor canonicalises).

import (
	"crypto/ed25519"
	"encoding/base64"
	"encoding/json"
	"sort"
	"strconv"
	"strings"

	gmsl "github.com/matrix-org/gomatrixserverlib"
	"github.com/matrix-org/gomatrixserverlib/spec"
	"github.com/tidwall/gjson"
)

var contentKeysOf = map[string][]string{
	spec.MRoomCreate:           {"m.federate", "creator", "room_version", "predecessor", "type", "additional_creators"},
	spec.MRoomPowerLevels:      {"ban", "invite", "kick", "redact", "users", "users_default", "events", "events_default", "state_default", "notifications"},
	spec.MRoomJoinRules:        {"join_rule", "allow"},
	spec.MRoomThirdPartyInvite: {"display_name", "key_validity_url", "public_key", "public_keys"},
}

// spellingsOf lists the spellings of key that differ from it and that encoding/json folds to it: Capitalised, UPPER,
// one inner letter raised, the last letter raised, U+017F for each s, U+212A for each k.
func spellingsOf(key string) []string {
	seen := map[string]bool{key: true}
	var out []string
	add := func(s string) {
		if !seen[s] {
			seen[s] = true
			out = append(out, s)
		}
	}
	raise := func(i int) string { return key[:i] + strings.ToUpper(key[i:i+1]) + key[i+1:] }
	for i := 0; i < len(key); i++ {
		if key[i] >= 'a' && key[i] <= 'z' {
			add(raise(i)) // the first one found is the Capitalised form (or `m.Federate`)
			break
		}
	}
	add(strings.ToUpper(key))
	add(raise(len(key) - 1))
	if len(key) > 4 {
		add(raise(len(key) / 2))
	}
	for i := 0; i < len(key); i++ {
		switch key[i] {
		case 's':
			add(key[:i] + "ſ" + key[i+1:])
		case 'k':
			add(key[:i] + "K" + key[i+1:])
		}
	}
	return out
}

type spellMember struct{ name, raw string }

func contentMembersOf(eventJSON []byte) ([]spellMember, bool) {
	c := gjson.GetBytes(eventJSON, "content")
	if !c.IsObject() {
		return nil, false
	}
	var ms []spellMember
	c.ForEach(func(k, v gjson.Result) bool {
		ms = append(ms, spellMember{k.Str, v.Raw})
		return true
	})
	return ms, true
}

func jsonOf(v interface{}) string { b, _ := json.Marshal(v); return string(b) }

// otherValue: a value for the variant of key that differs from cur (raw JSON; "" = the exact member is absent) and that
// would change the verdict if the variant were read in place of / merged into the exact member.
func (r *Rng) otherValue(ver, key, cur string) string {
	if r.Chance(6) {
		return Pick(r, []string{`5`, `null`, `"x"`, `[]`, `{}`, `true`}) // ill-typed for most fields: an error for a folded reader only
	}
	differs := func(cands ...string) string {
		for i := 0; i < 8; i++ {
			if c := Pick(r, cands); c != cur {
				return c
			}
		}
		return cands[0]
	}
	switch key {
	case "ban", "invite", "kick", "redact", "users_default", "events_default", "state_default":
		return differs("0", "50", "100", "-1", "75")
	case "users":
		return jsonOf(map[string]int{Pick(r, authUsers): Pick(r, []int{100, 50, 0})})
	case "events":
		return jsonOf(map[string]int{Pick(r, []string{"m.room.name", "m.room.power_levels", "m.room.message", "x.custom"}): Pick(r, []int{0, 100})})
	case "notifications":
		return jsonOf(map[string]int{"room": Pick(r, []int{0, 100})})
	case "m.federate":
		return differs("false", "true")
	case "creator":
		return differs(jsonOf(Pick(r, authUsers)), `"@ghost:hs9"`)
	case "room_version":
		return differs(`"99"`, `"1"`, jsonOf(ver), `"11"`)
	case "predecessor":
		return differs(`{"room_id":"!old:hs1","event_id":"$old"}`, `5`)
	case "type":
		return differs(`"m.space"`, `5`)
	case "additional_creators":
		return differs(jsonOf([]string{Pick(r, authUsers)}), `["bad"]`, jsonOf([]string{"@alice:hs1", "@bob:hs2"}))
	case "join_rule":
		return differs(jsonOf(Pick(r, joinRules)), `"public"`, `"invite"`)
	case "allow":
		return differs(`[]`, `[{"type":"m.room_membership","room_id":"!else:hs1"}]`, `5`)
	case "display_name", "key_validity_url":
		return differs(`"y"`, `5`)
	case "public_key":
		return differs(`"AAAA"`, `"!"`)
	case "public_keys":
		return differs(`[]`, `[{"public_key":"AAAA","key_validity_url":"https://v"}]`, `5`)
	}
	return `0`
}

// respellContent rewrites the content of e (an event of one of the four types).  Returns the new event and a label, or
// (e, "") when nothing was done.
func (r *Rng) respellContent(g *RoomGen, e *Ev, mode int, key, spelling, value string) (*Ev, string) {
	if e == nil {
		return e, ""
	}
	ms, ok := contentMembersOf(e.JSON)
	if !ok {
		return e, ""
	}
	idx := -1
	for i, m := range ms {
		if m.name == key {
			idx = i
		}
	}
	label := ""
	switch {
	case mode == 0 && idx >= 0: // the exact member under another spelling, alone
		ms[idx].name = spelling
		label = "alone-renamed"
	case idx < 0: // a variant of a member the content does not have
		ms = append(ms, spellMember{spelling, value})
		label = "alone-added"
	case mode == 1: // beside the exact member, before it
		ms = append([]spellMember{{spelling, value}}, ms...)
		label = "beside-before"
	default: // beside the exact member, after it
		ms = append(ms, spellMember{spelling, value})
		label = "beside-after"
	}
	var sb strings.Builder
	sb.WriteByte('{')
	for i, m := range ms {
		if i > 0 {
			sb.WriteByte(',')
		}
		sb.WriteString(jsonOf(m.name))
		sb.WriteByte(':')
		sb.WriteString(m.raw)
	}
	sb.WriteByte('}')
	c := gjson.GetBytes(e.JSON, "content")
	if c.Index <= 0 || c.Index+len(c.Raw) > len(e.JSON) {
		return e, ""
	}
	js := append(append(append([]byte{}, e.JSON[:c.Index]...), sb.String()...), e.JSON[c.Index+len(c.Raw):]...)
	pdu, err := gmsl.MustGetRoomVersion(gmsl.RoomVersion(g.Ver)).NewEventFromTrustedJSONWithEventID(e.ID, js, false)
	if err != nil {
		return e, ""
	}
	return &Ev{PDU: pdu, ID: e.ID, JSON: js}, label
}

// what maybeRespell did to the events of the scenario being built (reset by takeSpelled)
var authSpelled []string

// maybeRespell: with probability pct, one member name of the content of e in a variant spelling.
func (r *Rng) maybeRespell(g *RoomGen, e *Ev, pct int) *Ev {
	if e == nil || !r.Chance(pct) {
		return e
	}
	keys := contentKeysOf[e.PDU.Type()]
	if len(keys) == 0 {
		return e
	}
	key := Pick(r, keys)
	ms, ok := contentMembersOf(e.JSON)
	if !ok {
		return e
	}
	cur := ""
	var present []string
	for _, m := range ms {
		if m.name == key {
			cur = m.raw
		}
		for _, k := range keys {
			if k == m.name {
				present = append(present, k)
			}
		}
	}
	if cur == "" && len(present) > 0 && r.Chance(60) { // prefer a member the content has
		key = Pick(r, present)
		for _, m := range ms {
			if m.name == key {
				cur = m.raw
			}
		}
	}
	out, label := r.respellContent(g, e, r.Intn(3), key, Pick(r, spellingsOf(key)), r.otherValue(g.Ver, key, cur))
	if label != "" {
		authSpelled = append(authSpelled, label)
	}
	return out
}

func takeSpelled() string {
	if len(authSpelled) == 0 {
		return ""
	}
	sort.Strings(authSpelled)
	s := "+spelling-" + authSpelled[0]
	if len(authSpelled) > 1 {
		s = "+spelling-several"
	}
	authSpelled = nil
	return s
}

// genAuthSpellings: the directed scenarios.  In each, ONE content member of one auth event (or of the event under test)
// is in a variant spelling, every key of the four contents in turn, every kind of spelling, alone and beside the exact
// member; the room is otherwise an ordinary one in which the verdict hinges on that member.
func genAuthSpellings(o *Out, tier string, r *Rng) {
	vers := []string{"1", "6", "10", "11", "12"}
	if tier == "thorough" {
		vers = allVersions
	}
	const creator, alice, bob = "@creator:hs1", "@alice:hs1", "@bob:hs2"
	type scenario struct {
		name    string
		target  string // type of the event whose content is respelled ("" = the event under test)
		key     string
		value   string // value of the variant
		mode    int    // 0 renamed, 1 before, 2 after (an absent member is added)
		pl      map[string]interface{}
		jr      map[string]interface{}
		cc      map[string]interface{}
		bobIn   bool
		tp      bool // a third-party invite: the room holds an m.room.third_party_invite event, the event under test cites it
		mkEvent func(g *RoomGen) *Ev
	}
	name := func(g *RoomGen) *Ev {
		return g.Mk("m.room.name", bob, sp(""), map[string]interface{}{"name": "x"}, []string{"$prev:hs1"}, nil, nil)
	}
	join := func(g *RoomGen) *Ev {
		return g.Mk(spec.MRoomMember, bob, sp(bob), map[string]interface{}{"membership": "join"}, []string{"$prev:hs1"}, nil, nil)
	}
	ban := func(g *RoomGen) *Ev {
		return g.Mk(spec.MRoomMember, bob, sp("@carol:hs3"), map[string]interface{}{"membership": "ban"}, []string{"$prev:hs1"}, nil, nil)
	}
	msg := func(g *RoomGen) *Ev {
		return g.Mk("m.room.message", bob, nil, map[string]interface{}{"body": "x"}, []string{"$prev:hs1"}, nil, nil)
	}
	var scs []scenario
	// join rules: a stranger joins
	scs = append(scs,
		scenario{name: "join_rule-renamed", target: spec.MRoomJoinRules, key: "join_rule", mode: 0, jr: map[string]interface{}{"join_rule": "public"}, mkEvent: join},
		scenario{name: "join_rule-beside-after", target: spec.MRoomJoinRules, key: "join_rule", value: `"public"`, mode: 2, jr: map[string]interface{}{"join_rule": "invite"}, mkEvent: join},
		scenario{name: "join_rule-beside-before", target: spec.MRoomJoinRules, key: "join_rule", value: `"invite"`, mode: 1, jr: map[string]interface{}{"join_rule": "public"}, mkEvent: join},
		scenario{name: "join_rule-added", target: spec.MRoomJoinRules, key: "join_rule", value: `"public"`, mode: 2, jr: map[string]interface{}{}, mkEvent: join},
		scenario{name: "allow-ill-typed-variant", target: spec.MRoomJoinRules, key: "allow", value: `5`, mode: 2, jr: map[string]interface{}{"join_rule": "public"}, mkEvent: join},
	)
	// power levels of the room: bob (level 0, joined) sends state / bans / talks
	levelDefault := map[string]int{"state_default": 50, "events_default": 0, "ban": 50, "kick": 50, "invite": 0, "redact": 50, "users_default": 0}
	for _, k := range []string{"state_default", "events_default", "ban", "kick", "invite", "redact", "users_default"} {
		ev := name
		val := 0 // the value under the variant spelling: one that flips the verdict if it is read
		switch k {
		case "ban":
			ev = ban
		case "events_default":
			ev, val = msg, 50
		case "users_default":
			val = 100
		}
		scs = append(scs,
			scenario{name: k + "-added", target: spec.MRoomPowerLevels, key: k, value: strconv.Itoa(val), mode: 2, bobIn: true, mkEvent: ev},
			scenario{name: k + "-beside", target: spec.MRoomPowerLevels, key: k, value: strconv.Itoa(val), mode: 2, bobIn: true, pl: map[string]interface{}{k: levelDefault[k]}, mkEvent: ev},
			scenario{name: k + "-renamed", target: spec.MRoomPowerLevels, key: k, mode: 0, bobIn: true, pl: map[string]interface{}{k: val}, mkEvent: ev},
		)
	}
	scs = append(scs,
		scenario{name: "users-beside", target: spec.MRoomPowerLevels, key: "users", value: jsonOf(map[string]int{bob: 100}), mode: 2, bobIn: true, mkEvent: name},
		scenario{name: "users-beside-ban", target: spec.MRoomPowerLevels, key: "users", value: jsonOf(map[string]int{bob: 100}), mode: 1, bobIn: true, mkEvent: ban},
		scenario{name: "users-renamed", target: spec.MRoomPowerLevels, key: "users", mode: 0, bobIn: true, pl: map[string]interface{}{"users": map[string]int{bob: 100}}, mkEvent: name},
		scenario{name: "events-beside", target: spec.MRoomPowerLevels, key: "events", value: `{"m.room.name":0}`, mode: 2, bobIn: true, pl: map[string]interface{}{"events": map[string]int{"m.room.topic": 50}}, mkEvent: name},
		scenario{name: "events-added", target: spec.MRoomPowerLevels, key: "events", value: `{"m.room.name":0}`, mode: 2, bobIn: true, mkEvent: name},
		scenario{name: "notifications-ill-typed-variant", target: spec.MRoomPowerLevels, key: "notifications", value: `5`, mode: 2, bobIn: true, mkEvent: msg},
	)
	// create: m.federate (a join from another server), room_version / creator / additional_creators of the room's create event
	scs = append(scs,
		scenario{name: "m.federate-beside", target: spec.MRoomCreate, key: "m.federate", value: "false", mode: 2, cc: map[string]interface{}{"m.federate": true}, jr: map[string]interface{}{"join_rule": "public"}, mkEvent: join},
		scenario{name: "m.federate-added", target: spec.MRoomCreate, key: "m.federate", value: "false", mode: 2, jr: map[string]interface{}{"join_rule": "public"}, mkEvent: join},
		scenario{name: "m.federate-renamed", target: spec.MRoomCreate, key: "m.federate", mode: 0, cc: map[string]interface{}{"m.federate": false}, jr: map[string]interface{}{"join_rule": "public"}, mkEvent: join},
		scenario{name: "additional_creators-added", target: spec.MRoomCreate, key: "additional_creators", value: jsonOf([]string{bob}), mode: 2, bobIn: true, mkEvent: name},
		scenario{name: "room_version-ill-typed-variant", target: spec.MRoomCreate, key: "room_version", value: `5`, mode: 2, bobIn: true, mkEvent: msg},
		scenario{name: "creator-ill-typed-variant", target: spec.MRoomCreate, key: "creator", value: `5`, mode: 2, bobIn: true, mkEvent: msg},
		scenario{name: "predecessor-ill-typed-variant", target: spec.MRoomCreate, key: "predecessor", value: `5`, mode: 2, bobIn: true, mkEvent: msg},
	)
	// third-party invite: the creator turns a 3pid invite (token tok1, signed by the identity server's key) into an
	// invite of @carol; the key is read from `public_keys` of the m.room.third_party_invite event
	tpInvite := func(g *RoomGen) *Ev { return nil } // replaced per scenario below (needs the signed block)
	scs = append(scs,
		scenario{name: "3pid-public_keys-renamed", target: spec.MRoomThirdPartyInvite, key: "public_keys", mode: 0, tp: true, mkEvent: tpInvite},
		scenario{name: "3pid-public_keys-beside", target: spec.MRoomThirdPartyInvite, key: "public_keys", value: `[]`, mode: 2, tp: true, mkEvent: tpInvite},
		scenario{name: "3pid-public_keys-ill-typed-variant", target: spec.MRoomThirdPartyInvite, key: "public_keys", value: `5`, mode: 1, tp: true, mkEvent: tpInvite},
		scenario{name: "3pid-display_name-ill-typed-variant", target: spec.MRoomThirdPartyInvite, key: "display_name", value: `5`, mode: 2, tp: true, mkEvent: tpInvite},
		scenario{name: "3pid-key_validity_url-ill-typed-variant", target: spec.MRoomThirdPartyInvite, key: "key_validity_url", value: `5`, mode: 2, tp: true, mkEvent: tpInvite},
		scenario{name: "3pid-public_key-ill-typed-variant", target: spec.MRoomThirdPartyInvite, key: "public_key", value: `5`, mode: 2, tp: true, mkEvent: tpInvite},
		scenario{name: "create-type-ill-typed-variant", target: spec.MRoomCreate, key: "type", value: `5`, mode: 2, bobIn: true, mkEvent: msg},
	)
	// the event under test is a create event / a power-levels event whose own content has the variant
	scs = append(scs,
		scenario{name: "new-create-creator-renamed", key: "creator", mode: 0},
		scenario{name: "new-create-room_version-added", key: "room_version", value: `"99"`, mode: 2},
		scenario{name: "new-create-room_version-beside", key: "room_version", value: `"99"`, mode: 2},
		scenario{name: "new-create-additional_creators-added", key: "additional_creators", value: `["bad"]`, mode: 2},
		scenario{name: "new-pl-users-added", key: "users", value: jsonOf(map[string]int{alice: 100}), mode: 2},
		scenario{name: "new-pl-ban-added", key: "ban", value: "100", mode: 2},
		scenario{name: "new-pl-state_default-renamed", key: "state_default", mode: 0},
		scenario{name: "new-pl-kick-float-variant", key: "kick", value: `"50"`, mode: 2},
		scenario{name: "new-pl-users-null-variant", key: "users", value: `null`, mode: 2},
	)
	for _, ver := range vers {
		verImpl := gmsl.MustGetRoomVersion(gmsl.RoomVersion(ver))
		for _, sc := range scs {
			spellings := spellingsOf(sc.key)
			if tier != "thorough" {
				// quick: every (scenario, version) with two spellings, rotating through all kinds over the scenarios
				a := r.Intn(len(spellings))
				spellings = []string{spellings[a], spellings[(a+1+r.Intn(len(spellings)-1))%len(spellings)]}
			}
			for _, spelling := range spellings {
				g := NewRoomGen(r, ver)
				cc := map[string]interface{}{"room_version": ver}
				if !verImpl.PrivilegedCreators() {
					cc["creator"] = creator
				}
				for k, v := range sc.cc {
					cc[k] = v
				}
				var auth []*Ev
				respell := func(e *Ev) *Ev {
					if e == nil || sc.target != e.PDU.Type() {
						return e
					}
					out, _ := r.respellContent(g, e, sc.mode, sc.key, spelling, sc.value)
					return out
				}
				create := g.MkCreate(creator, cc)
				if create == nil {
					continue
				}
				create = respell(create)
				g.Create = create
				auth = append(auth, create)
				auth = append(auth, g.Mk(spec.MRoomMember, creator, sp(creator), map[string]interface{}{"membership": "join"}, nil, nil, nil))
				pl := map[string]interface{}{"users": map[string]int{alice: 100}}
				if !verImpl.PrivilegedCreators() {
					pl["users"] = map[string]int{creator: 100, alice: 100}
				}
				for k, v := range sc.pl {
					pl[k] = v
				}
				auth = append(auth, respell(g.Mk(spec.MRoomPowerLevels, creator, sp(""), pl, nil, nil, nil)))
				if sc.jr != nil {
					auth = append(auth, respell(g.Mk(spec.MRoomJoinRules, creator, sp(""), sc.jr, nil, nil, nil)))
				}
				auth = append(auth, g.Mk(spec.MRoomMember, alice, sp(alice), map[string]interface{}{"membership": "join"}, nil, nil, nil))
				if sc.bobIn {
					auth = append(auth, g.Mk(spec.MRoomMember, bob, sp(bob), map[string]interface{}{"membership": "join"}, nil, nil, nil))
				}
				var ev *Ev
				sig3pid := false
				switch {
				case sc.tp:
					pub, priv, _ := ed25519.GenerateKey(newDetReader(r))
					sb, _ := json.Marshal(map[string]interface{}{"mxid": "@carol:hs3", "token": "tok1"})
					signedJSON, err := gmsl.SignJSON("idserver", "ed25519:0", priv, sb)
					if err != nil {
						continue
					}
					key := base64.RawStdEncoding.EncodeToString(pub)
					tpc := map[string]interface{}{"display_name": "x", "key_validity_url": "https://x", "public_key": key,
						"public_keys": []map[string]interface{}{{"public_key": key, "key_validity_url": "https://x"}}}
					auth = append(auth, respell(g.Mk(spec.MRoomThirdPartyInvite, creator, sp("tok1"), tpc, nil, nil, nil)))
					ev = g.Mk(spec.MRoomMember, creator, sp("@carol:hs3"), map[string]interface{}{"membership": "invite",
						"third_party_invite": map[string]interface{}{"display_name": "x", "signed": json.RawMessage(signedJSON)}}, []string{"$prev:hs1"}, nil, nil)
					sig3pid = true
				case sc.mkEvent != nil:
					ev = sc.mkEvent(g)
				case strings.HasPrefix(sc.name, "new-create"):
					g2 := NewRoomGen(r, ver)
					c2 := map[string]interface{}{"creator": creator}
					if sc.name == "new-create-room_version-beside" {
						c2["room_version"] = ver
					}
					ev = g2.Mk(spec.MRoomCreate, creator, sp(""), c2, nil, nil, nil)
					g, auth = g2, nil
					ev, _ = r.respellContent(g, ev, sc.mode, sc.key, spelling, sc.value)
				default: // a new power-levels event sent by alice (level 100)
					np := map[string]interface{}{}
					for k, v := range pl {
						np[k] = v
					}
					if sc.mode == 0 {
						np[sc.key] = 25
					}
					ev = g.Mk(spec.MRoomPowerLevels, alice, sp(""), np, []string{"$prev:hs1"}, nil, nil)
					ev, _ = r.respellContent(g, ev, sc.mode, sc.key, spelling, sc.value)
				}
				ok := ev != nil
				for _, a := range auth {
					ok = ok && a != nil
				}
				if !ok {
					o.Count("spelling.construct-refused")
					continue
				}
				s := &AuthScenario{G: g, Auth: auth, Event: ev, Sig3pid: sig3pid, Label: "spelling-" + sc.name}
				res := o.Do("allowed", s.Args()...)
				o.Count("spelling." + sc.name + "." + res)
			}
		}
	}
}
