package main

import (
	"fmt"
	"sort"

	gmsl "github.com/matrix-org/gomatrixserverlib"
	"github.com/matrix-org/gomatrixserverlib/spec"
)

// Branch is one fork of a simulated room: its current state and its tip.
type Branch struct {
	State map[gmsl.StateKeyTuple]*Ev
	Tip   string
	Depth int
}

func (b *Branch) clone() *Branch {
	n := &Branch{State: map[gmsl.StateKeyTuple]*Ev{}, Tip: b.Tip, Depth: b.Depth}
	for k, v := range b.State {
		n.State[k] = v
	}
	return n
}

// History is a generated room DAG.
type History struct {
	// OddKeys: also send state events whose TYPE is that of a control event (m.room.create, m.room.power_levels,
	// m.room.join_rules) under a NON-EMPTY state key.  They are ordinary state ("others"), distinct from the room's
	// control events, and must be resolved slot by slot like any other (type, state_key).
	OddKeys  bool
	G        *RoomGen
	All      []*Ev          // every event, in creation order (ancestors first)
	ByID     map[string]*Ev // by event ID
	Branches []*Branch
	Rejected map[string]bool
	ts       int
	// Wild: sender-chosen timestamps spread over the whole uint64 range (1, 2^62, 2^63+5, 2^63+7, 2^64-1): room versions
	// whose canonical JSON is not enforced accept them, and a comparator that subtracts instead of comparing is no longer
	// a total order on them (seeded change C11-r8m2).
	Wild bool
}

var wildStamps = []uint64{3, 1 << 62, 1<<63 + 5, 1<<63 + 7, ^uint64(0), 1<<62 + 1, 2, 1 << 63}

func (h *History) stamp(ts int) interface{} {
	if h.Wild {
		return wildStamps[ts%len(wildStamps)]
	}
	return ts
}

func (h *History) stateEvents(b *Branch) []gmsl.PDU {
	var out []gmsl.PDU
	for _, e := range b.State {
		out = append(out, e.PDU)
	}
	return out
}

// authFor selects the auth events for an event about to be sent on branch b, as AddAuthEvents does.
func (h *History) authFor(b *Branch, typ, sender string, stateKey *string, content interface{}) []string {
	probe := h.G.Mk(typ, sender, stateKey, content, nil, nil, nil)
	h.G.n-- // the probe does not count
	if probe == nil {
		return nil
	}
	needed := gmsl.StateNeededForAuth([]gmsl.PDU{probe.PDU})
	var ids []string
	for _, t := range needed.Tuples() {
		if e, ok := b.State[t]; ok {
			if h.G.v3 && t.EventType == spec.MRoomCreate {
				continue // the create event is implied by the room ID
			}
			ids = append(ids, e.ID)
		}
	}
	return ids
}

// Send appends an event to branch b (if the library accepts constructing it). checkAuth: only keep events
// the auth rules allow on that branch (otherwise the event is kept but marked rejected when reject is set).
func (h *History) Send(r *Rng, b *Branch, typ, sender string, stateKey *string, content interface{}, ts int) *Ev {
	auth := h.authFor(b, typ, sender, stateKey, content)
	extra := map[string]interface{}{"origin_server_ts": h.stamp(ts), "depth": b.Depth + 1}
	prev := []string{b.Tip}
	// a reference named twice by one event (the parsers accept it) is one dependency (seeded change C11-r5m2)
	if r.Chance(6) {
		prev = append(prev, b.Tip)
	}
	if len(auth) > 0 && r.Chance(6) {
		auth = append(append([]string{}, auth...), auth[r.Intn(len(auth))])
	}
	e := h.G.Mk(typ, sender, stateKey, content, prev, auth, extra)
	if e == nil {
		return nil
	}
	prov, err := gmsl.NewAuthEvents(h.stateEvents(b))
	allowed := err == nil && gmsl.Allowed(e.PDU, prov, StdQuerier) == nil
	if !allowed {
		if r.Chance(85) {
			return nil // most disallowed events are simply not sent
		}
		if r.Chance(50) {
			h.Rejected[e.ID] = true
		}
	}
	h.All = append(h.All, e)
	h.ByID[e.ID] = e
	b.Tip = e.ID
	b.Depth++
	if stateKey != nil && (allowed || r.Chance(50)) {
		b.State[gmsl.StateKeyTuple{EventType: typ, StateKey: *stateKey}] = e
	}
	return e
}

// Force appends an event to branch b and puts it into the branch state whatever the auth rules say about it (state
// sets received from other servers may hold anything).
func (h *History) Force(b *Branch, typ, sender string, stateKey string, content interface{}, ts int) *Ev {
	auth := h.authFor(b, typ, sender, &stateKey, content)
	extra := map[string]interface{}{"origin_server_ts": h.stamp(ts), "depth": b.Depth + 1}
	e := h.G.Mk(typ, sender, &stateKey, content, []string{b.Tip}, auth, extra)
	if e == nil {
		return nil
	}
	h.All = append(h.All, e)
	h.ByID[e.ID] = e
	b.Tip = e.ID
	b.Depth++
	b.State[gmsl.StateKeyTuple{EventType: typ, StateKey: stateKey}] = e
	return e
}

// GenHistory builds a room with forks.
func GenHistory(r *Rng, ver string, size int) *History { return GenHistoryOpt(r, ver, size, false) }

// GenHistoryOpt: oddKeys as History.OddKeys (with oddKeys = false the random stream is that of GenHistory).
func GenHistoryOpt(r *Rng, ver string, size int, oddKeys bool) *History {
	g := NewRoomGen(r, ver)
	h := &History{G: g, ByID: map[string]*Ev{}, Rejected: map[string]bool{}, OddKeys: oddKeys}
	verImpl := gmsl.MustGetRoomVersion(gmsl.RoomVersion(ver))
	if err := verImpl.CheckCanonicalJSON([]byte(`{"a":18446744073709551615}`)); err == nil && r.Chance(12) {
		h.Wild = true
	}
	users := []string{"@creator:hs1", "@alice:hs1", "@bob:hs2", "@carol:hs3", "@dave:hs2"}
	creator := users[0]
	cc := map[string]interface{}{"room_version": ver}
	if !verImpl.PrivilegedCreators() {
		cc["creator"] = creator
	} else if r.Chance(30) {
		cc["additional_creators"] = []string{users[1]}
	}
	create := g.MkCreate(creator, cc)
	if create == nil {
		return nil
	}
	h.All = append(h.All, create)
	h.ByID[create.ID] = create
	root := &Branch{State: map[gmsl.StateKeyTuple]*Ev{{EventType: spec.MRoomCreate, StateKey: ""}: create}, Tip: create.ID, Depth: 1}
	h.ts = 10
	nextTS := func() int {
		if !r.Chance(25) { // equal timestamps happen
			h.ts += 1 + r.Intn(3)
		}
		if r.Chance(5) && h.ts > 14 { // ... and so do clocks running behind: a child stamped earlier than its parent
			return h.ts - 1 - r.Intn(4)
		}
		return h.ts
	}
	// bootstrap on the root branch
	h.Send(r, root, spec.MRoomMember, creator, sp(creator), map[string]interface{}{"membership": "join"}, nextTS())
	pl := map[string]interface{}{"users": map[string]interface{}{users[1]: 50}, "users_default": 0, "state_default": 50, "events_default": 0, "ban": 50, "kick": 50, "invite": 0}
	if !verImpl.PrivilegedCreators() {
		pl["users"].(map[string]interface{})[creator] = 100
	}
	lenient := lenientPowerLevels(verImpl)
	if lenient && r.Chance(25) {
		respellLevels(r, pl)
	}
	h.Send(r, root, spec.MRoomPowerLevels, creator, sp(""), pl, nextTS())
	h.Send(r, root, spec.MRoomJoinRules, creator, sp(""), map[string]interface{}{"join_rule": "public"}, nextTS())
	for _, u := range users[1:4] {
		h.Send(r, root, spec.MRoomMember, u, sp(u), map[string]interface{}{"membership": "join"}, nextTS())
	}
	oddEvent := func(b *Branch, sender string) {
		typ := Pick(r, []string{spec.MRoomPowerLevels, spec.MRoomPowerLevels, spec.MRoomJoinRules, spec.MRoomCreate})
		sk := Pick(r, []string{"k", "k", users[1], "x"})
		var content interface{}
		switch typ {
		case spec.MRoomPowerLevels:
			cur := map[string]interface{}{}
			if e, ok := b.State[gmsl.StateKeyTuple{EventType: spec.MRoomPowerLevels, StateKey: ""}]; ok {
				cur = plContentOf(e)
			}
			content = r.tweakPL(cur, users[1:], Pick(r, []int64{0, 50, 100}))
		case spec.MRoomJoinRules:
			content = map[string]interface{}{"join_rule": Pick(r, []string{"public", "invite", "knock"})}
		default:
			content = map[string]interface{}{"creator": creator, "room_version": ver, "v": r.Intn(100)}
		}
		if r.Chance(50) {
			if h.Send(r, b, typ, sender, sp(sk), content, nextTS()) != nil {
				return
			}
		}
		h.Force(b, typ, sender, sk, content, nextTS())
	}
	branches := []*Branch{root}
	if oddKeys && r.Chance(60) {
		// before the first fork: the key is then one on which every state set agrees (unless a branch changes it)
		oddEvent(root, creator)
	}
	for i := 0; i < size; i++ {
		b := Pick(r, branches)
		if len(branches) < 4 && r.Chance(18) {
			nb := b.clone()
			branches = append(branches, nb)
			b = nb
		}
		sender := Pick(r, users)
		if oddKeys && r.Chance(22) {
			oddEvent(b, sender)
			continue
		}
		switch r.Intn(10) {
		case 0, 1, 2: // membership of self
			m := Pick(r, []string{"join", "leave", "join", "knock"})
			h.Send(r, b, spec.MRoomMember, sender, sp(sender), map[string]interface{}{"membership": m}, nextTS())
		case 3, 4: // membership of another user: invite / kick / ban / unban
			target := Pick(r, users)
			m := Pick(r, []string{"invite", "leave", "ban", "leave"})
			mc := map[string]interface{}{"membership": m}
			if r.Chance(10) {
				// the member name under another spelling, alone or next to the exact name with another value: member
				// names are exact, so whether this is a control event (a leave / ban of somebody else) and what the auth
				// rules make of it hangs on the member named exactly `membership`
				other := Pick(r, []string{"invite", "leave", "ban"})
				switch r.Intn(3) {
				case 0:
					mc = map[string]interface{}{r.otherSpelling("membership"): m}
				case 1:
					mc["memberſhip"] = other
				default:
					mc["Membership"] = other
				}
			}
			if r.Chance(15) {
				// members the content struct does not (yet) know, of any type, and known ones of the wrong type: what makes a
				// kick / ban a control event is the strict decoding of the content AS THE STRUCT IS NOW (seeded change C10-r7m1)
				switch r.Intn(8) {
				case 0:
					mc["redact_events"] = "true"
				case 1:
					mc["redact_events"] = 1
				case 2:
					mc["org.matrix.msc4293.redact_events"] = "yes"
				case 3:
					mc["reason"] = 5
				case 4:
					mc["is_direct"] = "yes"
				case 5:
					mc["displayname"] = map[string]interface{}{"a": 1}
				case 6:
					mc["x.custom"] = []interface{}{1, "two"}
				default:
					mc["knock_restricted"] = true
				}
			}
			h.Send(r, b, spec.MRoomMember, sender, sp(target), mc, nextTS())
		case 5, 6: // power levels
			cur := map[string]interface{}{}
			if e, ok := b.State[gmsl.StateKeyTuple{EventType: spec.MRoomPowerLevels, StateKey: ""}]; ok {
				cur = plContentOf(e)
			}
			np := r.tweakPL(cur, users[1:], Pick(r, []int64{0, 50, 100}))
			if verImpl.PrivilegedCreators() {
				if u, ok := np["users"].(map[string]interface{}); ok {
					delete(u, creator)
				}
			}
			if lenient && r.Chance(25) {
				respellLevels(r, np)
			}
			h.Send(r, b, spec.MRoomPowerLevels, sender, sp(""), np, nextTS())
		case 7: // join rules
			h.Send(r, b, spec.MRoomJoinRules, sender, sp(""), map[string]interface{}{"join_rule": Pick(r, []string{"public", "invite", "knock"})}, nextTS())
		default: // other state
			typ := Pick(r, []string{"m.room.name", "m.room.topic", "x.custom"})
			sk := Pick(r, []string{"", "", "k"})
			h.Send(r, b, typ, sender, sp(sk), map[string]interface{}{"v": r.Intn(100)}, nextTS())
		}
	}
	h.Branches = branches
	return h
}

func plContentOf(e *Ev) map[string]interface{} {
	var m map[string]interface{}
	pc, err := e.PDU.PowerLevels()
	if err != nil {
		return map[string]interface{}{}
	}
	m = map[string]interface{}{"ban": pc.Ban, "kick": pc.Kick, "invite": pc.Invite, "redact": pc.Redact,
		"users_default": pc.UsersDefault, "events_default": pc.EventsDefault, "state_default": pc.StateDefault}
	u := map[string]interface{}{}
	for k, v := range pc.Users {
		u[k] = v
	}
	m["users"] = u
	ev := map[string]interface{}{}
	for k, v := range pc.Events {
		ev[k] = v
	}
	m["events"] = ev
	return m
}

// AuthClosure returns every event reachable through auth_events from the given events (excluding events not in the history).
func (h *History) AuthClosure(start []*Ev) []*Ev {
	seen := map[string]bool{}
	var out []*Ev
	var walk func(e *Ev)
	walk = func(e *Ev) {
		for _, id := range e.PDU.AuthEventIDs() {
			if seen[id] {
				continue
			}
			seen[id] = true
			if a, ok := h.ByID[id]; ok {
				out = append(out, a)
				walk(a)
			}
		}
	}
	for _, e := range start {
		walk(e)
	}
	sort.Slice(out, func(i, j int) bool { return out[i].ID < out[j].ID })
	return out
}

// lenientPowerLevels: the room version reads levels written as strings or floats (versions before 10, org.matrix.msc3787)
func lenientPowerLevels(verImpl gmsl.IRoomVersion) bool {
	var c gmsl.PowerLevelContent
	c.Defaults()
	return verImpl.ParsePowerLevels([]byte(`{"ban":"5"}`), &c) == nil
}

// respellLevels writes some levels of a power-levels content the other ways the lenient parser reads: a decimal string
// (also padded with blanks) or a float.  The auth rules AND the power ordering of state resolution see the same numbers
// (seeded change C10-r5m2).
func respellLevels(r *Rng, pl map[string]interface{}) {
	re := func(v interface{}) interface{} {
		var n int64
		switch t := v.(type) {
		case int:
			n = int64(t)
		case int64:
			n = t
		case float64:
			n = int64(t)
		default:
			return v
		}
		switch r.Intn(4) {
		case 0:
			return fmt.Sprint(n)
		case 1:
			return " " + fmt.Sprint(n) + " "
		case 2:
			return float64(n)
		}
		return v
	}
	if u, ok := pl["users"].(map[string]interface{}); ok {
		for _, k := range sortedKeys(u) { // (map order must not drive the PRNG)
			if r.Chance(60) {
				u[k] = re(u[k])
			}
		}
	}
	for _, k := range []string{"users_default", "state_default", "events_default", "ban", "kick", "invite"} {
		if v, ok := pl[k]; ok && r.Chance(20) {
			pl[k] = re(v)
		}
	}
}
