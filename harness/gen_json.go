package main

import (
	"fmt"
	"strings"
	"unicode/utf8"
)

// JV is a JSON value as the generator knows it (the value the generated text denotes).
type JV struct {
	Kind byte // n b # s a o
	B    bool
	Num  string // literal
	Str  string // decoded string (valid UTF-8)
	Arr  []*JV
	Keys []string
	Vals []*JV
}

var keyPool = []string{
	"a", "b", "c", "aa", "ab", "a\"b", "a\\b", "a\nb", "a\tb", "a/b", "a\u0001", "a\u001f", "é", "é", "z", "Z", "A",
	"\U0001F600", "￿", "", "퟿", "", " ", "a b", "aA", "a!", "a#", "a[", "a]", "\u007f", "\u0080", "߿", "ࠀ",
	"type", "content", "signatures", "unsigned", "hashes", "sha256", "users", "events", "ban", " ", "<>&", "\b", "\f", "\r",
}

var strPool = []string{
	"", "x", "hello", "a\"b", "back\\slash", "line\nbreak", "tab\t", "\u0000", "\u001f", "\u007f", "é", "\U0001F600\U0001F4A9", "/", "//",
	"  ", "<script>&", "�", "퟿", "@alice:example.org", "m.room.member", "\b\f\r", "0", "-0", "1e5",
}

var intPool = []string{
	"0", "1", "-1", "10", "100", "-100", "50", "2147483647", "-2147483648", "4294967296",
	"9007199254740991", "-9007199254740991", "9007199254740990",
}
var badNumPool = []string{
	"9007199254740992", "-9007199254740992", "9007199254740993", "18446744073709551616", "12345678901234567890", "99999999999999999999999",
	// literals that an accumulate-without-overflow-check integer parser reduces modulo 2^64 into the safe range
	"18446744073709551617", "18446744073709551615", "-18446744073709551616", "36893488147419103232", "18455751272964292607", "340282366920938463463374607431768211456",
	"-0", "0.0", "-0.0", "0.5", "-0.5", "1.0", "1.5", "1e0", "1E0", "1e5", "1E5", "1e-5", "1e-05", "1e+5", "0e5", "0E0", "-0e0", "-0E-0",
	"1.5e3", "2.0E-2", "100e-2", "1e308", "1e309", "-1e-400", "0.1e1", "9007199254740991.0", "9.007199254740991e15",
}

func (r *Rng) genNum(allowBad bool) string {
	if allowBad && r.Chance(35) {
		return Pick(r, badNumPool)
	}
	if r.Chance(60) {
		return Pick(r, intPool)
	}
	n := int64(r.Next()>>11) % 9007199254740991
	if r.Bool() {
		n = -n
	}
	if r.Chance(50) {
		n = n % 1000
	}
	return fmt.Sprint(n)
}

func (r *Rng) genStr() string {
	if r.Chance(60) {
		return Pick(r, strPool)
	}
	var sb strings.Builder
	n := r.Intn(6)
	for i := 0; i < n; i++ {
		sb.WriteRune(r.genRune())
	}
	return sb.String()
}

func (r *Rng) genRune() rune {
	switch r.Intn(8) {
	case 0:
		return rune(r.Intn(0x20))
	case 1:
		return Pick(r, []rune{'"', '\\', '/', 0x7f, ' ', '<', '>', '&'})
	case 2:
		return rune(0x80 + r.Intn(0x780))
	case 3:
		c := rune(0x800 + r.Intn(0xF800))
		if c >= 0xD800 && c < 0xE000 {
			c = 0xE000
		}
		return c
	case 4:
		return rune(0x10000 + r.Intn(0x100000))
	default:
		return rune(0x21 + r.Intn(0x5e))
	}
}

func (r *Rng) genKey() string {
	if r.Chance(75) {
		return Pick(r, keyPool)
	}
	return r.genStr()
}

// GenValue generates a value of bounded depth/width with distinct keys per object.
func (r *Rng) GenValue(depth int, allowBadNum bool) *JV {
	k := r.Intn(10)
	if depth <= 0 && k >= 6 {
		k = r.Intn(6)
	}
	switch {
	case k == 0:
		return &JV{Kind: 'n'}
	case k == 1:
		return &JV{Kind: 'b', B: r.Bool()}
	case k <= 3:
		return &JV{Kind: '#', Num: r.genNum(allowBadNum)}
	case k <= 5:
		return &JV{Kind: 's', Str: r.genStr()}
	case k <= 7:
		n := r.Intn(5)
		v := &JV{Kind: 'a'}
		for i := 0; i < n; i++ {
			v.Arr = append(v.Arr, r.GenValue(depth-1, allowBadNum))
		}
		return v
	default:
		return r.GenObject(depth, allowBadNum)
	}
}

func (r *Rng) GenObject(depth int, allowBadNum bool) *JV {
	n := r.Intn(7)
	v := &JV{Kind: 'o'}
	seen := map[string]bool{}
	for i := 0; i < n; i++ {
		k := r.genKey()
		if seen[k] {
			continue
		}
		seen[k] = true
		v.Keys = append(v.Keys, k)
		v.Vals = append(v.Vals, r.GenValue(depth-1, allowBadNum))
	}
	return v
}

// Style selects how a value is presented as text.
type Style struct {
	Ws      int // chance (%) of whitespace at each gap
	Escape  int // chance (%) that a character is written as an escape although it need not be
	Shuffle bool
}

var wsChars = []string{" ", "\t", "\n", "\r", "  ", " \n "}

func (r *Rng) ws(st Style, sb *strings.Builder) {
	for r.Chance(st.Ws) {
		sb.WriteString(Pick(r, wsChars))
	}
}

func (r *Rng) renderString(s string, st Style, sb *strings.Builder) {
	sb.WriteByte('"')
	for _, c := range s {
		r.renderRune(c, st, sb)
	}
	sb.WriteByte('"')
}

func hex4s(c rune, upper bool) string {
	if upper {
		return fmt.Sprintf("\\u%04X", c)
	}
	return fmt.Sprintf("\\u%04x", c)
}

func (r *Rng) renderRune(c rune, st Style, sb *strings.Builder) {
	two := map[rune]string{'"': `\"`, '\\': `\\`, '\b': `\b`, '\f': `\f`, '\n': `\n`, '\r': `\r`, '\t': `\t`}
	must := c < 0x20 || c == '"' || c == '\\'
	if !must && !r.Chance(st.Escape) {
		sb.WriteRune(c)
		return
	}
	// some escape spelling
	if t, ok := two[c]; ok && r.Chance(60) {
		sb.WriteString(t)
		return
	}
	if c == '/' && r.Chance(50) {
		sb.WriteString(`\/`)
		return
	}
	if c >= 0x10000 {
		c -= 0x10000
		hi, lo := 0xD800+(c>>10), 0xDC00+(c&0x3FF)
		sb.WriteString(hex4s(hi, r.Bool()))
		sb.WriteString(hex4s(lo, r.Bool()))
		return
	}
	// mixed-case hex
	h := hex4s(c, r.Bool())
	if r.Chance(30) {
		b := []byte(h)
		for i := 2; i < len(b); i++ {
			if r.Bool() {
				b[i] = strings.ToUpper(string(b[i]))[0]
			} else {
				b[i] = strings.ToLower(string(b[i]))[0]
			}
		}
		h = string(b)
	}
	sb.WriteString(h)
}

// Render writes one textual presentation of v.
func (r *Rng) Render(v *JV, st Style, sb *strings.Builder) {
	switch v.Kind {
	case 'n':
		sb.WriteString("null")
	case 'b':
		if v.B {
			sb.WriteString("true")
		} else {
			sb.WriteString("false")
		}
	case '#':
		sb.WriteString(v.Num)
	case 's':
		r.renderString(v.Str, st, sb)
	case 'a':
		sb.WriteByte('[')
		r.ws(st, sb)
		for i, x := range v.Arr {
			if i > 0 {
				sb.WriteByte(',')
				r.ws(st, sb)
			}
			r.Render(x, st, sb)
			r.ws(st, sb)
		}
		sb.WriteByte(']')
	case 'o':
		idx := make([]int, len(v.Keys))
		for i := range idx {
			idx[i] = i
		}
		if st.Shuffle {
			for i := len(idx) - 1; i > 0; i-- {
				j := r.Intn(i + 1)
				idx[i], idx[j] = idx[j], idx[i]
			}
		}
		sb.WriteByte('{')
		r.ws(st, sb)
		for n, i := range idx {
			if n > 0 {
				sb.WriteByte(',')
				r.ws(st, sb)
			}
			r.renderString(v.Keys[i], st, sb)
			r.ws(st, sb)
			sb.WriteByte(':')
			r.ws(st, sb)
			r.Render(v.Vals[i], st, sb)
			r.ws(st, sb)
		}
		sb.WriteByte('}')
	}
}

func (r *Rng) RenderText(v *JV, st Style) []byte {
	var sb strings.Builder
	r.ws(st, &sb)
	r.Render(v, st, &sb)
	r.ws(st, &sb)
	return []byte(sb.String())
}

func (r *Rng) RandStyle() Style {
	return Style{Ws: Pick(r, []int{0, 0, 20, 50}), Escape: Pick(r, []int{0, 0, 10, 40, 100}), Shuffle: r.Bool()}
}

// Malform applies one structure-unaware mutation to a text.
func (r *Rng) Malform(t []byte) []byte {
	b := append([]byte{}, t...)
	switch r.Intn(9) {
	case 0: // truncate
		if len(b) > 0 {
			b = b[:r.Intn(len(b))]
		}
	case 1: // flip a byte
		if len(b) > 0 {
			b[r.Intn(len(b))] = byte(r.Intn(256))
		}
	case 2: // delete a byte
		if len(b) > 0 {
			i := r.Intn(len(b))
			b = append(b[:i], b[i+1:]...)
		}
	case 3: // insert a structural byte
		i := r.Intn(len(b) + 1)
		c := Pick(r, []byte(`{}[]",:\-0.eE u/`))
		b = append(b[:i], append([]byte{c}, b[i:]...)...)
	case 4: // trailing garbage
		b = append(b, Pick(r, []string{"x", "{}", ",", "]", " 1", "\x00", "\""})...)
	case 5: // lone surrogate / broken escapes inside a string
		s := Pick(r, []string{`"\ud800"`, `"\udc00x"`, `"\ud800\n"`, `"\ud800A"`, `"\u12"`, `"\u12G4"`, `"\x"`, `"\ud83d\ude0"`, `"\ud83d\u"`, `"a` + "\x01" + `b"`, "\"\xff\xfe\"", "\"\xc3\"", "\"\xed\xa0\x80\""})
		b = []byte(`[` + s + `]`)
	case 6: // duplicate keys
		b = []byte(Pick(r, []string{`{"a":1,"a":2}`, `{"a":1,"b":2,"a":3}`, `{"a":{"b":1,"b":2}}`, `{"a":1,"a":2}`}))
	case 7: // number grammar violations
		b = []byte(`[` + Pick(r, []string{"01", "-", "-01", "1.", ".5", "1e", "1e+", "+1", "0x10", "1.e5", "--1", "-0-0", "00", "- 0", "1 2", "NaN", "Infinity", "-Infinity"}) + `]`)
	case 8: // literal violations
		b = []byte(Pick(r, []string{"tru", "nul", "True", "[nulll]", "[tru e]", "", " ", "\t\n", "{", "}", "[", "]", "{\"a\"}", "{\"a\":}", "{,}", "[,]", "[1,]", "{\"a\":1,}", "{a:1}", "'a'", "[\"a\" \"b\"]", "{\"a\" 1}"}))
	}
	return b
}

func validUTF8(b []byte) bool { return utf8.Valid(b) }
