#!/bin/sh
# usage: mutate_test.sh <prop> <tier> <revert-commit | patch-file>   — runs ./check against a scratch worktree with one change applied
set -e
P=$1; T=$2; C=$3
WT=$(mktemp -d /tmp/wt_XXXXXX); rmdir $WT
git -C /repo worktree add -q $WT HEAD
if [ -f "$C" ]; then (git -C $WT apply "$C" 2>/dev/null || (cd $WT && patch -p1 -s -F3 --no-backup-if-mismatch < "$C")); else (cd $WT && git revert --no-commit $C >/dev/null); fi
VERIF_EVIDENCE_DIR=/tmp/verif_scratch_evidence VERIF_REPLAY_DIR=/tmp/verif_scratch_replays VERIF_REPO=$WT ./check $P $T | tail -${4:-3} || true
git -C /repo worktree remove --force $WT; git -C /repo worktree prune
# restore VGen from the real tree
work/bin/vextract /repo work/vgen_restore >/dev/null 2>&1 || true
