#!/bin/bash
# usage: seed_confirm.sh <prop> <src-dir with patch.diff demo_test.go README.md> <seed-id> [demo-subdir]
# Confirms a seeded change in a scratch worktree (builds, full suite passes, demo fails with / passes without), runs the
# property's checks against it, and stores it under $VROOT/seeded/<seed-id>/ with meta.json.
set -u
VROOT=$(cd "$(dirname "$0")" && pwd)
P=$1; SRC=$2; ID=$3; SUB=${4:-.}
export GOFLAGS=-mod=mod GOPROXY=off GOSUMDB=off GOTOOLCHAIN=local
WT=$(mktemp -d /tmp/seedwt_XXXXXX); rmdir $WT
git -C /repo worktree add -q $WT HEAD
cleanup() { git -C /repo worktree remove --force $WT 2>/dev/null; git -C /repo worktree prune; }
trap cleanup EXIT
cd $WT
applyp() { git apply $SRC/patch.diff 2>/dev/null || patch -p1 -s -F3 --no-backup-if-mismatch < $SRC/patch.diff >/dev/null 2>&1; }
if ! applyp || ! go build ./... >/dev/null 2>&1; then
  # the code the change touched was repaired since: keep the files, mark the seed
  mkdir -p $VROOT/seeded/$ID; cp -n $SRC/patch.diff $SRC/demo_test.go $SRC/README.md $VROOT/seeded/$ID/ 2>/dev/null
  python3 - $VROOT/seeded/$ID/meta.json "$P" "$ID" <<'PY'
import json,sys
p,prop,i=sys.argv[1:]
try: m=json.load(open(p))
except Exception: m={}
if m.get('applies') is not False:
    m={'property':prop,'id':i,'applies':False,'note':'the patch no longer applies to /repo HEAD (or no longer builds): the code it changed was repaired since (see known_findings.txt)','previous':{k:m.get(k) for k in ('caught_by','check_quick_tail','check_thorough_tail')}}
    json.dump(m,open(p,'w'),indent=1)
PY
  echo "RESULT $ID: patch does not apply any more (kept, marked)"; exit 0
fi
git checkout -q -- . ; git clean -fdq -e out 2>/dev/null
applyp
BUILD=ok; go build ./... >/dev/null 2>&1 || BUILD=fail
SUITE=$(go test -count=1 ./... 2>&1 | grep -c "^ok")
SUITEFAIL=$(go test -count=1 ./... 2>&1 | grep -c "^FAIL\|^---")
cp $SRC/demo_test.go $SUB/zz_demo_test.go
DEMO_WITH=$(cd $SUB && go test -count=1 -run . . 2>&1 | tail -1 | cut -c1-60)
git checkout -q -- . ; # revert the patch, keep the demo
DEMO_WITHOUT=$(cd $SUB && go test -count=1 -run . . 2>&1 | tail -1 | cut -c1-60)
rm -f $SUB/zz_demo_test.go
applyp
git checkout -q go.mod 2>/dev/null
cd "$VROOT"
QUICK=$(VERIF_EVIDENCE_DIR=/tmp/verif_scratch_evidence VERIF_REPLAY_DIR=/tmp/verif_scratch_replays VERIF_REPO=$WT ./check $P quick 2>&1 | tail -4)
# "concrete" = a VIOLATION line with a failing input; "tie-only" = only `no-failing-input-found`
# (note: when a proof obligation such as a source pin breaks, the quick command already runs the thorough generators)
kind() { if echo "$1" | grep VIOLATION | grep -qv no-failing-input-found; then echo concrete; elif echo "$1" | grep -q VIOLATION; then echo tie-only; else echo none; fi; }
KQ=$(kind "$QUICK")
CAUGHT="quick:$KQ"; THOR=""
if [ "$KQ" != concrete ]; then
  THOR=$(VERIF_EVIDENCE_DIR=/tmp/verif_scratch_evidence VERIF_REPLAY_DIR=/tmp/verif_scratch_replays VERIF_REPO=$WT ./check $P thorough 2>&1 | tail -4)
  KT=$(kind "$THOR")
  if [ "$KT" = concrete ]; then CAUGHT="thorough:concrete"; elif [ "$KQ" = tie-only ] || [ "$KT" = tie-only ]; then CAUGHT="tie-only"; else CAUGHT=missed; fi
fi
mkdir -p $VROOT/seeded/$ID
cp $SRC/patch.diff $SRC/demo_test.go $VROOT/seeded/$ID/; cp $SRC/README.md $VROOT/seeded/$ID/README.md 2>/dev/null
python3 - "$P" "$ID" "$BUILD" "$SUITE" "$SUITEFAIL" "$DEMO_WITH" "$DEMO_WITHOUT" "$CAUGHT" "$QUICK" "$THOR" "$SUB" "$VROOT" <<'PY'
import json,sys
p,i,build,suite,sfail,dw,dwo,caught,quick,thor,sub,vroot=sys.argv[1:]
meta={"property":p,"id":i,"build":build,"suite_packages_ok":int(suite),"suite_failures":int(sfail),"demo_dir":sub,
 "demo_with_change":dw,"demo_without_change":dwo,"caught_by":caught,"check_quick_tail":quick.split("\n"),"check_thorough_tail":thor.split("\n") if thor else [],
 "ran":["git apply patch.diff","go build ./...","go test -count=1 ./...","demo test with and without the change","VERIF_REPO=<worktree> ./check %s quick|thorough"%p]}
json.dump(meta,open(vroot+'/seeded/%s/meta.json'%i,'w'),indent=1)
print("RESULT %s: build=%s suite_ok=%s suite_fail=%s demo_with=[%s] demo_without=[%s] caught=%s"%(i,build,suite,sfail,dw,dwo,caught))
PY
