#!/bin/sh
# Run once after a fresh restore, offline: regenerate VGen from /repo and build every Lean target + tools.
set -e
cd "$(dirname "$0")"
export GOFLAGS=-mod=mod GOPROXY=off GOSUMDB=off GOTOOLCHAIN=local
mkdir -p work/bin lean/VGen
export GOCACHE="$(pwd)/work/gocache"
(cd tools/extract && go build -o ../../work/bin/vextract .)
work/bin/vextract "${VERIF_REPO:-/repo}" lean
(cd lean && lake build)
cp "${VERIF_REPO:-/repo}/go.sum" harness/go.sum
(cd harness && go build -tags verif -o ../work/bin/vharness .)
echo setup ok
